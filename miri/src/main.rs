//! Engine `lazysim`, Miri half (C09, shared-state clause): the same first-use
//! race as the shuttle scenario, but with std threads and the *real*
//! `once_cell`, interpreted by Miri under a seeded preemptive scheduler with
//! its data-race detector. Seed and workload come in through argv only.
//!
//! argv: <workload seed> <threads> <ops per thread>
//! Prints one line per result (sorted by thread) so that two runs of the same
//! Miri seed can be diffed.

use decaf377::{Encoding, Fq};

fn splitmix(s: &mut u64) -> u64 {
    *s = s.wrapping_add(0x9E37_79B9_7F4A_7C15);
    let mut z = *s;
    z = (z ^ (z >> 30)).wrapping_mul(0xBF58_476D_1CE4_E5B9);
    z = (z ^ (z >> 27)).wrapping_mul(0x94D0_49BB_1331_11EB);
    z ^ (z >> 31)
}

fn fq_from(x: u64) -> Fq {
    let mut b = [0u8; 32];
    b[..8].copy_from_slice(&x.to_le_bytes());
    Fq::from_le_bytes_mod_order(&b)
}

/// Four-case contract checked algebraically with field operations only
/// (zeta's non-squareness is established by the shuttle half's reference model).
fn check(num: &Fq, den: &Fq, flag: bool, y: &Fq) -> bool {
    let zero = fq_from(0);
    if *num == zero {
        return flag && *y == zero;
    }
    if *den == zero {
        return !flag && *y == zero;
    }
    let lhs = *y * *y * *den;
    if flag {
        lhs == *num
    } else {
        lhs == decaf377::ZETA * *num
    }
}

/// Set (Relaxed: creates no happens-before edge) by the first thread after its
/// first call has returned; the last thread is a *late caller*: it waits for
/// the flag and only then makes its own first call, so it finds the cells
/// already initialised and takes whatever fast path the lazy cell has. With a
/// correct cell that fast path synchronises with the initialiser; a cell that
/// publishes with too weak an ordering is reported by Miri as a data race.
static FIRST_CALL_DONE: std::sync::atomic::AtomicBool = std::sync::atomic::AtomicBool::new(false);

fn unhex32(h: &str) -> [u8; 32] {
    let mut out = [0u8; 32];
    let b = h.as_bytes();
    for i in 0..32.min(b.len() / 2) {
        let d = |c: u8| -> u8 {
            match c {
                b'0'..=b'9' => c - b'0',
                b'a'..=b'f' => c - b'a' + 10,
                _ => 0,
            }
        };
        out[i] = d(b[2 * i]) << 4 | d(b[2 * i + 1]);
    }
    out
}

/// `lazymiri conv <C02|C03|C11> <seed> <vectors...>`: the cross-target pass of the iosim properties. No threads;
/// reference vectors ("V:<encoding of k*G>:<k>", "I:<invalid string>") come from the BigUint model through argv.
fn conv_mode(prop: &str, seed: u64, vectors: &[String]) {
    use ark_serialize::{CanonicalDeserialize, CanonicalSerialize};
    use decaf377::{Element, Fr};
    use std::convert::TryFrom;
    match prop {
        "C11" => {
            conversions_smoke(seed);
            conversions_smoke(seed.wrapping_mul(0x9E37_79B9).wrapping_add(17));
            conversions_smoke(!seed);
        }
        "C02" | "C03" => {
            for v in vectors {
                let parts: Vec<&str> = v.split(':').collect();
                match parts.as_slice() {
                    ["V", h, k] => {
                        let bytes = unhex32(h);
                        let k: u64 = k.parse().expect("vector scalar");
                        let want = Element::GENERATOR * Fr::from(k);
                        if prop == "C02" {
                            let a = Encoding(bytes).vartime_decompress();
                            assert!(a.as_ref().ok() == Some(&want), "INVARIANT C02_valid_encoding_decodes_to_kG");
                            let b = Element::try_from(&bytes[..]);
                            assert!(b.ok() == Some(want), "INVARIANT C02_try_from_slice");
                            let c = Element::deserialize_compressed(&bytes[..]);
                            assert!(c.ok() == Some(want), "INVARIANT C02_stream_decode");
                            let d = Encoding::try_from(&bytes[..]).ok().and_then(|e| e.vartime_decompress().ok());
                            assert!(d == Some(want), "INVARIANT C02_encoding_from_slice");
                        } else {
                            assert!(want.vartime_compress().0 == bytes, "INVARIANT C03_encoding_of_kG");
                            // another way of arriving at the same element: repeated addition (Z != 1)
                            if k <= 8 {
                                let mut acc = Element::IDENTITY;
                                for _ in 0..k {
                                    acc = acc + Element::GENERATOR;
                                }
                                assert!(acc.vartime_compress().0 == bytes, "INVARIANT C03_encoding_of_sum");
                                let neg = -(Element::GENERATOR * Fr::from(k));
                                let back = -neg;
                                assert!(back.vartime_compress().0 == bytes, "INVARIANT C03_encoding_of_double_negation");
                            }
                            let mut w = Vec::new();
                            want.serialize_compressed(&mut w).expect("INVARIANT C03_serialize");
                            assert!(w == bytes.to_vec(), "INVARIANT C03_wire_bytes");
                            assert!(want.vartime_compress_to_field().to_bytes_le() == bytes, "INVARIANT C03_field_form_bytes");
                            assert!(bytes[31] >> 5 == 0, "INVARIANT C03_top_bits");
                        }
                    }
                    ["I", h] => {
                        if prop == "C02" {
                            let bytes = unhex32(h);
                            assert!(Encoding(bytes).vartime_decompress().is_err(), "INVARIANT C02_invalid_string_rejected");
                            assert!(Element::try_from(&bytes[..]).is_err(), "INVARIANT C02_invalid_string_rejected_try_from");
                            assert!(Element::deserialize_compressed(&bytes[..]).is_err(), "INVARIANT C02_invalid_string_rejected_stream");
                        }
                    }
                    _ => panic!("bad vector argument {:?}", v),
                }
            }
            if prop == "C02" {
                for l in [0usize, 1, 31, 33, 64] {
                    let b = vec![0u8; l];
                    assert!(Element::try_from(&b[..]).is_err(), "INVARIANT C02_wrong_length_rejected");
                    assert!(Encoding::try_from(&b[..]).is_err(), "INVARIANT C02_wrong_length_rejected_encoding");
                }
            }
        }
        _ => panic!("unknown property for conv mode"),
    }
    println!("ok conv {}", prop);
}

/// `lazymiri conc <seed> <threads>`: caller threads inside the batch conversions, sums and the multiscalar
/// multiplication at the same time (C06: whatever these hand out must be valid and must be the callers' own
/// elements). None of this touches the lazily built square-root tables, so it is quick under Miri, whose
/// seeded preemptive scheduler decides the interleaving and whose detector reports data races.
fn conc_mode(seed: u64, threads: usize) {
    use ark_ec::{CurveGroup, ScalarMul};
    use decaf377::{Element, Fr};
    let mut handles = Vec::new();
    for t in 0..threads {
        handles.push(std::thread::spawn(move || {
            let mut s = seed ^ ((t as u64 + 1) << 40);
            // elements with Z != 1: sums of the generator
            let n = 3 + (splitmix(&mut s) % 4) as usize;
            let mut v = Vec::new();
            let mut acc = Element::GENERATOR;
            for i in 0..n {
                for _ in 0..(1 + (t + i) % 3) {
                    acc = acc + Element::GENERATOR;
                }
                v.push(if i % 3 == 2 { Element::IDENTITY } else { acc });
            }
            let single: Vec<_> = v.iter().map(|e| e.into_affine()).collect();
            for round in 0..3 {
                let a = Element::normalize_batch(&v);
                let b = Element::batch_convert_to_mul_base(&v);
                assert!(a.len() == v.len() && b.len() == v.len(), "INVARIANT C06_batch_length");
                for i in 0..v.len() {
                    assert!(a[i] == single[i], "INVARIANT C06_normalize_batch_under_concurrency");
                    assert!(b[i] == single[i], "INVARIANT C06_batch_convert_under_concurrency");
                    assert!(Element::from(a[i]) == v[i], "INVARIANT C06_batch_element_changed");
                }
                let sum: Element = single.iter().sum();
                let mut want = Element::IDENTITY;
                for e in &v {
                    want = want + *e;
                }
                assert!(sum == want, "INVARIANT C06_sum_under_concurrency");
                if round == 0 {
                    let ks: Vec<Fr> = (0..v.len()).map(|i| Fr::from(16u64 * (i as u64 + 1))).collect();
                    let m = Element::vartime_multiscalar_mul(ks.iter(), v.iter());
                    let mut w = Element::IDENTITY;
                    for (k, e) in ks.iter().zip(v.iter()) {
                        w = w + *e * *k;
                    }
                    assert!(m == w, "INVARIANT C06_multiscalar_under_concurrency");
                }
            }
            v.len()
        }));
    }
    let mut total = 0;
    for h in handles {
        total += h.join().expect("INVARIANT thread_panicked");
    }
    println!("ok conc {} elements", total);
}

fn main() {
    let args: Vec<String> = std::env::args().collect();
    if args.get(1).map(|s| s.as_str()) == Some("conc") {
        let seed: u64 = args.get(2).and_then(|s| s.parse().ok()).unwrap_or(1);
        let threads: usize = args.get(3).and_then(|s| s.parse().ok()).unwrap_or(3);
        conc_mode(seed, threads);
        return;
    }
    if args.get(1).map(|s| s.as_str()) == Some("conv") {
        let prop = args.get(2).cloned().unwrap_or_default();
        let seed: u64 = args.get(3).and_then(|s| s.parse().ok()).unwrap_or(1);
        conv_mode(&prop, seed, &args[4.min(args.len())..]);
        return;
    }
    let wseed: u64 = args.get(1).and_then(|s| s.parse().ok()).unwrap_or(1);
    let threads: usize = args.get(2).and_then(|s| s.parse().ok()).unwrap_or(3);
    let ops: usize = args.get(3).and_then(|s| s.parse().ok()).unwrap_or(1);
    let mut handles = Vec::new();
    for t in 0..threads {
        let mut s = wseed ^ ((t as u64 + 1) << 32);
        handles.push(std::thread::spawn(move || {
            let mut out = Vec::new();
            if t == threads - 1 && threads >= 2 {
                while !FIRST_CALL_DONE.load(std::sync::atomic::Ordering::Relaxed) {
                    std::thread::yield_now();
                }
            }
            for k in 0..ops {
                let a = splitmix(&mut s);
                let b = splitmix(&mut s);
                match (t + k) % 3 {
                    0 | 1 => {
                        let num = fq_from(a % 5); // 0 with probability 1/5
                        let den = fq_from(b);
                        let (flag, y) = Fq::sqrt_ratio_zeta(&num, &den);
                        assert!(check(&num, &den, flag, &y), "INVARIANT sqrt_contract");
                        out.push(format!("t{} sqrt {} {:?}", t, flag, y.to_bytes_le()));
                    }
                    _ => {
                        // decode of 8 (the basepoint) and of a small even value
                        let mut e = [0u8; 32];
                        e[0] = 8 + 2 * (a % 4) as u8;
                        let r = Encoding(e).vartime_decompress();
                        if let Ok(p) = &r {
                            assert_eq!(p.vartime_compress().0, e, "INVARIANT decode_roundtrip");
                        }
                        // 8, 10, 12 and 14 are all valid encodings (reference model)
                        assert!(r.is_ok(), "INVARIANT small_valid_encoding_decodes");
                        if e[0] == 8 {
                            assert!(r.as_ref().ok() == Some(&decaf377::Element::GENERATOR), "INVARIANT basepoint_decodes_to_generator");
                        }
                        out.push(format!("t{} decode {} {}", t, e[0], r.is_ok()));
                    }
                }
                if t == 0 {
                    FIRST_CALL_DONE.store(true, std::sync::atomic::Ordering::Relaxed);
                }
            }
            out
        }));
    }
    let mut lines = Vec::new();
    for h in handles {
        lines.extend(h.join().expect("INVARIANT thread_panicked"));
    }
    // sequential re-execution after all threads joined must agree
    let mut again = Vec::new();
    for t in 0..threads {
        let mut s = wseed ^ ((t as u64 + 1) << 32);
        for k in 0..ops {
            let a = splitmix(&mut s);
            let b = splitmix(&mut s);
            match (t + k) % 3 {
                0 | 1 => {
                    let (flag, y) = Fq::sqrt_ratio_zeta(&fq_from(a % 5), &fq_from(b));
                    again.push(format!("t{} sqrt {} {:?}", t, flag, y.to_bytes_le()));
                }
                _ => {
                    let mut e = [0u8; 32];
                    e[0] = 8 + 2 * (a % 4) as u8;
                    again.push(format!("t{} decode {} {}", t, e[0], Encoding(e).vartime_decompress().is_ok()));
                }
            }
        }
    }
    assert_eq!(lines, again, "INVARIANT concurrent_differs_from_sequential");
    conversions_smoke(wseed);
    for l in &lines {
        println!("{}", l);
    }
    println!("ok {} results", lines.len());
}

/// Single-threaded pass over the byte / limb / text conversions and the wire forms, after the race: the
/// cross-target configurations (32-bit usize, big-endian) are the only place where assumptions about limb
/// width and byte order in these paths can show. Every expectation is computed from plain integers.
fn conversions_smoke(wseed: u64) {
    use ark_ff::{BigInteger, PrimeField};
    use ark_serialize::{CanonicalDeserialize, CanonicalSerialize};
    use decaf377::{Element, Fp, Fr};
    let mut s = wseed ^ 0x5eed;
    let a = splitmix(&mut s) | 0x0100_0000_0000_0001; // distinct low and high bytes
    let b = splitmix(&mut s);
    macro_rules! field_checks {
        ($t:ty, $n:expr) => {{
            let x = <$t>::from(a);
            let mut le = [0u8; $n];
            le[..8].copy_from_slice(&a.to_le_bytes());
            assert!(x.to_bytes_le() == le, "INVARIANT conv_to_bytes_le");
            assert!(<$t>::from_le_bytes_mod_order(&le) == x, "INVARIANT conv_from_le_bytes");
            assert!(<$t>::from_bytes_checked(&le).ok() == Some(x), "INVARIANT conv_from_bytes_checked");
            let mut be = le;
            be.reverse();
            assert!(<$t as PrimeField>::from_be_bytes_mod_order(&be) == x, "INVARIANT conv_from_be_bytes");
            let big = x.into_bigint();
            assert!(big.0[0] == a && big.0[1..].iter().all(|l| *l == 0), "INVARIANT conv_into_bigint_limbs");
            assert!(big.to_bytes_le()[..8] == a.to_le_bytes(), "INVARIANT conv_bigint_bytes");
            assert!(<$t>::from_bigint(big) == Some(x), "INVARIANT conv_from_bigint");
            assert!(x.to_string() == a.to_string(), "INVARIANT conv_display");
            assert!(a.to_string().parse::<$t>().ok() == Some(x), "INVARIANT conv_from_str");
            let n: num_bigint::BigUint = x.into();
            assert!(n == num_bigint::BigUint::from(a), "INVARIANT conv_into_biguint");
            assert!(<$t>::from(num_bigint::BigUint::from(a)) == x, "INVARIANT conv_from_biguint");
            // order is integer order (1 < 256 < 2^56 + 1)
            assert!(<$t>::from(1u64) < <$t>::from(256u64) && <$t>::from(256u64) < <$t>::from((1u64 << 56) + 1), "INVARIANT conv_order");
            let mut w = Vec::new();
            x.serialize_compressed(&mut w).expect("INVARIANT conv_serialize");
            assert!(w == le.to_vec(), "INVARIANT conv_wire_bytes");
            assert!(<$t>::deserialize_compressed(&w[..]).ok() == Some(x), "INVARIANT conv_wire_read");
            // two-limb value: a + b * 2^64
            let y = x + <$t>::from(b) * <$t>::from(u64::MAX) + <$t>::from(b);
            let yb = y.into_bigint();
            assert!(yb.0[0] == a && yb.0[1] == b, "INVARIANT conv_second_limb");
            let mut le2 = [0u8; $n];
            le2[..8].copy_from_slice(&a.to_le_bytes());
            le2[8..16].copy_from_slice(&b.to_le_bytes());
            assert!(y.to_bytes_le() == le2, "INVARIANT conv_second_limb_bytes");
            let mut w2 = Vec::new();
            y.serialize_compressed(&mut w2).expect("INVARIANT conv_serialize");
            assert!(<$t>::deserialize_compressed(&w2[..]).ok() == Some(y), "INVARIANT conv_wire_read_two_limbs");
        }};
    }
    field_checks!(Fq, 32);
    field_checks!(Fr, 32);
    field_checks!(Fp, 48);
    // element wire forms: generator = decode(8); its compressed stream form is the 32 bytes 08 00 .. 00
    let g = Element::GENERATOR;
    let mut w = Vec::new();
    g.serialize_compressed(&mut w).expect("INVARIANT elem_serialize");
    let mut e8 = [0u8; 32];
    e8[0] = 8;
    assert!(w == e8.to_vec(), "INVARIANT elem_wire_bytes");
    assert!(Element::deserialize_compressed(&w[..]).ok() == Some(g), "INVARIANT elem_wire_read");
    assert!(g.vartime_compress_to_field() == Fq::from(8u64), "INVARIANT elem_compress_to_field");
    let two_g = g + g;
    let enc = two_g.vartime_compress();
    assert!(enc.vartime_decompress().ok() == Some(two_g), "INVARIANT elem_roundtrip_2g");
    assert!((g * Fr::from(2u64)).vartime_compress() == enc, "INVARIANT elem_scalar_mul_2");
    println!("ok conversions");
}
