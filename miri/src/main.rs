//! Engine `lazysim`, Miri half (C09, shared-state clause): the same first-use
//! race as the shuttle scenario, but with std threads and the *real*
//! `once_cell`, interpreted by Miri under a seeded preemptive scheduler with
//! its data-race detector. Seed and workload come in through argv only.
//!
//! argv: <workload seed> <threads> <ops per thread>
//! Prints one line per result (sorted by thread) so that two runs of the same
//! Miri seed can be diffed.

use decaf377::{Encoding, Fq};

fn splitmix(s: &mut u64) -> u64 {
    *s = s.wrapping_add(0x9E37_79B9_7F4A_7C15);
    let mut z = *s;
    z = (z ^ (z >> 30)).wrapping_mul(0xBF58_476D_1CE4_E5B9);
    z = (z ^ (z >> 27)).wrapping_mul(0x94D0_49BB_1331_11EB);
    z ^ (z >> 31)
}

fn fq_from(x: u64) -> Fq {
    let mut b = [0u8; 32];
    b[..8].copy_from_slice(&x.to_le_bytes());
    Fq::from_le_bytes_mod_order(&b)
}

/// Four-case contract checked algebraically with field operations only
/// (zeta's non-squareness is established by the shuttle half's reference model).
fn check(num: &Fq, den: &Fq, flag: bool, y: &Fq) -> bool {
    let zero = fq_from(0);
    if *num == zero {
        return flag && *y == zero;
    }
    if *den == zero {
        return !flag && *y == zero;
    }
    let lhs = *y * *y * *den;
    if flag {
        lhs == *num
    } else {
        lhs == decaf377::ZETA * *num
    }
}

/// Set (Relaxed: creates no happens-before edge) by the first thread after its
/// first call has returned; the last thread is a *late caller*: it waits for
/// the flag and only then makes its own first call, so it finds the cells
/// already initialised and takes whatever fast path the lazy cell has. With a
/// correct cell that fast path synchronises with the initialiser; a cell that
/// publishes with too weak an ordering is reported by Miri as a data race.
static FIRST_CALL_DONE: std::sync::atomic::AtomicBool = std::sync::atomic::AtomicBool::new(false);

fn main() {
    let args: Vec<String> = std::env::args().collect();
    let wseed: u64 = args.get(1).and_then(|s| s.parse().ok()).unwrap_or(1);
    let threads: usize = args.get(2).and_then(|s| s.parse().ok()).unwrap_or(3);
    let ops: usize = args.get(3).and_then(|s| s.parse().ok()).unwrap_or(1);
    let mut handles = Vec::new();
    for t in 0..threads {
        let mut s = wseed ^ ((t as u64 + 1) << 32);
        handles.push(std::thread::spawn(move || {
            let mut out = Vec::new();
            if t == threads - 1 && threads >= 2 {
                while !FIRST_CALL_DONE.load(std::sync::atomic::Ordering::Relaxed) {
                    std::thread::yield_now();
                }
            }
            for k in 0..ops {
                let a = splitmix(&mut s);
                let b = splitmix(&mut s);
                match (t + k) % 3 {
                    0 | 1 => {
                        let num = fq_from(a % 5); // 0 with probability 1/5
                        let den = fq_from(b);
                        let (flag, y) = Fq::sqrt_ratio_zeta(&num, &den);
                        assert!(check(&num, &den, flag, &y), "INVARIANT sqrt_contract");
                        out.push(format!("t{} sqrt {} {:?}", t, flag, y.to_bytes_le()));
                    }
                    _ => {
                        // decode of 8 (the basepoint) and of a small even value
                        let mut e = [0u8; 32];
                        e[0] = 8 + 2 * (a % 4) as u8;
                        let r = Encoding(e).vartime_decompress();
                        if let Ok(p) = &r {
                            assert_eq!(p.vartime_compress().0, e, "INVARIANT decode_roundtrip");
                        }
                        if e[0] == 8 {
                            assert!(r.is_ok(), "INVARIANT basepoint_decodes");
                        }
                        out.push(format!("t{} decode {} {}", t, e[0], r.is_ok()));
                    }
                }
                if t == 0 {
                    FIRST_CALL_DONE.store(true, std::sync::atomic::Ordering::Relaxed);
                }
            }
            out
        }));
    }
    let mut lines = Vec::new();
    for h in handles {
        lines.extend(h.join().expect("INVARIANT thread_panicked"));
    }
    // sequential re-execution after all threads joined must agree
    let mut again = Vec::new();
    for t in 0..threads {
        let mut s = wseed ^ ((t as u64 + 1) << 32);
        for k in 0..ops {
            let a = splitmix(&mut s);
            let b = splitmix(&mut s);
            match (t + k) % 3 {
                0 | 1 => {
                    let (flag, y) = Fq::sqrt_ratio_zeta(&fq_from(a % 5), &fq_from(b));
                    again.push(format!("t{} sqrt {} {:?}", t, flag, y.to_bytes_le()));
                }
                _ => {
                    let mut e = [0u8; 32];
                    e[0] = 8 + 2 * (a % 4) as u8;
                    again.push(format!("t{} decode {} {}", t, e[0], Encoding(e).vartime_decompress().is_ok()));
                }
            }
        }
    }
    assert_eq!(lines, again, "INVARIANT concurrent_differs_from_sequential");
    for l in &lines {
        println!("{}", l);
    }
    println!("ok {} results", lines.len());
}
