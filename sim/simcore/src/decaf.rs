//! Reference model of decaf377 on affine coordinates over `field::fq()`.
//!
//! Transcribed from the *unoptimised* specification (`Decaf_1_1_Point.encodeSpec`
//! / `decodeSpec` in `ristretto.sage`, cofactor 4, a = -1, d = 3021) and the
//! protocol specification's decoding rules. Square test by Euler's criterion,
//! square roots by plain Tonelli-Shanks, inverses by Fermat. Shares nothing
//! with the crate under test.

use crate::field::{fq, fr, Fld};
use num_bigint::BigUint;
use num_traits::{One, Zero};
use std::sync::OnceLock;

pub const ZETA_DEC: &str =
    "2841681278031794617739547238867782961338435681360110683443920362658525667816";
pub const D: u32 = 3021;

#[derive(Clone, Debug, PartialEq, Eq)]
pub struct Pt {
    pub x: BigUint,
    pub y: BigUint,
}

#[derive(Clone, Copy, Debug, PartialEq, Eq, PartialOrd, Ord)]
pub enum Reject {
    HighBits,
    NonCanonical,
    Negative,
    MinusOne,
    NonSquare,
    Degenerate,
}

impl Reject {
    pub fn name(&self) -> &'static str {
        match self {
            Reject::HighBits => "high_bits",
            Reject::NonCanonical => "non_canonical",
            Reject::Negative => "negative",
            Reject::MinusOne => "minus_one",
            Reject::NonSquare => "non_square",
            Reject::Degenerate => "degenerate",
        }
    }
}

pub fn zeta() -> &'static BigUint {
    static Z: OnceLock<BigUint> = OnceLock::new();
    Z.get_or_init(|| BigUint::parse_bytes(ZETA_DEC.as_bytes(), 10).unwrap())
}

pub fn d() -> BigUint {
    BigUint::from(D)
}

pub fn identity() -> Pt {
    Pt {
        x: BigUint::zero(),
        y: BigUint::one(),
    }
}

/// -x^2 + y^2 = 1 + d x^2 y^2
pub fn on_curve(p: &Pt) -> bool {
    let f = fq();
    if p.x >= f.p || p.y >= f.p {
        return false;
    }
    let xx = f.sqr(&p.x);
    let yy = f.sqr(&p.y);
    let lhs = f.sub(&yy, &xx);
    let rhs = f.add(&BigUint::one(), &f.mul(&d(), &f.mul(&xx, &yy)));
    lhs == rhs
}

/// Specification decoding of a field element s (already known canonical).
pub fn decode_s(s: &BigUint) -> Result<Pt, Reject> {
    let f = fq();
    if f.is_negative(s) {
        return Err(Reject::Negative);
    }
    if s.is_zero() {
        return Ok(identity());
    }
    let one = BigUint::one();
    let ss = f.sqr(s);
    // x = 2s / (1 + a s^2) with a = -1: the denominator vanishes for s = -1 (s = 1 is negative)
    let xden = f.sub(&one, &ss);
    if xden.is_zero() {
        return Err(Reject::MinusOne);
    }
    // t^2 = a^2 s^4 + 2 (a - 2d) s^2 + 1
    let a_minus_2d = f.sub(&f.neg(&one), &f.mul(&BigUint::from(2u32), &d()));
    let t2 = f.add(
        &f.add(
            &f.sqr(&ss),
            &f.mul(&f.mul(&BigUint::from(2u32), &a_minus_2d), &ss),
        ),
        &one,
    );
    if t2.is_zero() {
        // y would be a division by zero; the specification's point is undefined
        return Err(Reject::Degenerate);
    }
    let mut t = match f.sqrt(&t2) {
        Some(t) => f.abs(&t),
        None => return Err(Reject::NonSquare),
    };
    let two_s = f.mul(&BigUint::from(2u32), s);
    let altx = f.mul(&two_s, &f.inv(&t));
    if f.is_negative(&altx) {
        t = f.neg(&t);
    }
    let x = f.mul(&two_s, &f.inv(&xden));
    let y = f.mul(&f.add(&one, &ss), &f.inv(&t));
    Ok(Pt { x, y })
}

/// Specification decoding of 32 bytes, with the protocol's byte-level rules.
pub fn decode(bytes: &[u8; 32]) -> Result<Pt, Reject> {
    let f = fq();
    if bytes[31] >> 5 != 0 {
        return Err(Reject::HighBits);
    }
    let s = Fld::int_le(bytes);
    if s >= f.p {
        return Err(Reject::NonCanonical);
    }
    decode_s(&s)
}

/// Specification encoding (field-element form) of an affine point that is a
/// valid representative. For other inputs the result is whatever the formulas
/// give, or `None` when a square root does not exist.
pub fn encode_s(p: &Pt) -> Option<BigUint> {
    let f = fq();
    if p.x.is_zero() || p.y.is_zero() {
        return Some(BigUint::zero());
    }
    let one = BigUint::one();
    // sr = xsqrt(1 - a x^2) = positive root of 1 + x^2
    let sr = f.abs(&f.sqrt(&f.add(&one, &f.sqr(&p.x)))?);
    let altx = f.mul(&f.mul(&p.x, &p.y), &f.inv(&sr));
    let xinv = f.inv(&p.x);
    let s = if f.is_negative(&altx) {
        f.mul(&f.add(&one, &sr), &xinv)
    } else {
        f.mul(&f.sub(&one, &sr), &xinv)
    };
    Some(f.abs(&s))
}

pub fn encode(p: &Pt) -> Option<[u8; 32]> {
    let s = encode_s(p)?;
    let v = fq().to_le(&s);
    let mut a = [0u8; 32];
    a.copy_from_slice(&v);
    Some(a)
}

/// Decaf equality (Decaf paper section 4.5): x1 y2 = y1 x2.
pub fn equal(p: &Pt, q: &Pt) -> bool {
    let f = fq();
    f.mul(&p.x, &q.y) == f.mul(&p.y, &q.x)
}

// ---- group law in projective coordinates (add-2008-bbjlp), a = -1 ----------

#[derive(Clone, Debug)]
struct Proj {
    x: BigUint,
    y: BigUint,
    z: BigUint,
}

fn padd(p: &Proj, q: &Proj) -> Proj {
    let f = fq();
    let a = f.mul(&p.z, &q.z);
    let b = f.sqr(&a);
    let c = f.mul(&p.x, &q.x);
    let dd = f.mul(&p.y, &q.y);
    let e = f.mul(&d(), &f.mul(&c, &dd));
    let ff = f.sub(&b, &e);
    let g = f.add(&b, &e);
    let t = f.sub(
        &f.sub(&f.mul(&f.add(&p.x, &p.y), &f.add(&q.x, &q.y)), &c),
        &dd,
    );
    let x3 = f.mul(&a, &f.mul(&ff, &t));
    // D - aC = D + C
    let y3 = f.mul(&a, &f.mul(&g, &f.add(&dd, &c)));
    let z3 = f.mul(&ff, &g);
    Proj { x: x3, y: y3, z: z3 }
}

fn to_proj(p: &Pt) -> Proj {
    Proj {
        x: p.x.clone(),
        y: p.y.clone(),
        z: BigUint::one(),
    }
}

fn to_affine(p: &Proj) -> Pt {
    let f = fq();
    let zi = f.inv(&p.z);
    Pt {
        x: f.mul(&p.x, &zi),
        y: f.mul(&p.y, &zi),
    }
}

pub fn add(p: &Pt, q: &Pt) -> Pt {
    to_affine(&padd(&to_proj(p), &to_proj(q)))
}

pub fn neg(p: &Pt) -> Pt {
    Pt {
        x: fq().neg(&p.x),
        y: p.y.clone(),
    }
}

pub fn scalar_mul(k: &BigUint, p: &Pt) -> Pt {
    let mut acc = Proj {
        x: BigUint::zero(),
        y: BigUint::one(),
        z: BigUint::one(),
    };
    let base = to_proj(p);
    let n = k.bits();
    for i in (0..n).rev() {
        acc = padd(&acc, &acc);
        if k.bit(i) {
            acc = padd(&acc, &base);
        }
    }
    to_affine(&acc)
}

/// x([r]P) = 0 : P lies in the preimage of the decaf group's identity coset
/// after multiplication by the group order.
pub fn r_times_is_identity(p: &Pt) -> bool {
    let rp = scalar_mul(&fr().p, p);
    rp.x.is_zero()
}

/// Exact validity of an affine point as a representative of a decaf377
/// element, by the reference alone: on the curve, killed by r (up to the
/// 2-torsion coset), and its specification encoding decodes back to its coset.
pub fn valid_representative(p: &Pt) -> Result<(), &'static str> {
    if !on_curve(p) {
        return Err("off_curve");
    }
    if !r_times_is_identity(p) {
        return Err("r_times_not_identity");
    }
    let enc = match encode(p) {
        Some(e) => e,
        None => return Err("spec_encode_undefined"),
    };
    match decode(&enc) {
        Ok(q) => {
            if equal(p, &q) {
                Ok(())
            } else {
                Err("encode_decode_other_element")
            }
        }
        Err(_) => Err("spec_encoding_rejected"),
    }
}

/// Cheap validity (no scalar multiplication): on curve and spec round trip.
pub fn valid_representative_cheap(p: &Pt) -> Result<(), &'static str> {
    if !on_curve(p) {
        return Err("off_curve");
    }
    let enc = match encode(p) {
        Some(e) => e,
        None => return Err("spec_encode_undefined"),
    };
    match decode(&enc) {
        Ok(q) => {
            if equal(p, &q) {
                Ok(())
            } else {
                Err("encode_decode_other_element")
            }
        }
        Err(_) => Err("spec_encoding_rejected"),
    }
}

/// A point of order 4: (i, 0) with i^2 = -1 (a x^2 = 1 for a = -1).
pub fn t4() -> Pt {
    let f = fq();
    let i = f.sqrt(&f.neg(&BigUint::one())).expect("-1 is a square in Fq");
    Pt {
        x: i,
        y: BigUint::zero(),
    }
}

/// The point of order 2: (0, -1).
pub fn t2() -> Pt {
    Pt {
        x: BigUint::zero(),
        y: fq().neg(&BigUint::one()),
    }
}

pub fn generator() -> &'static Pt {
    static G: OnceLock<Pt> = OnceLock::new();
    G.get_or_init(|| {
        let mut b = [0u8; 32];
        b[0] = 8;
        decode(&b).expect("8 decodes")
    })
}

/// The four-case contract of sqrt_ratio_zeta, checked algebraically.
/// Returns Err(description) if (flag, y) is not a legal answer for (num, den).
pub fn check_sqrt_ratio(num: &BigUint, den: &BigUint, flag: bool, y: &BigUint) -> Result<u8, String> {
    let f = fq();
    if num.is_zero() {
        return if flag && y.is_zero() {
            Ok(2)
        } else {
            Err(format!("num=0 must give (true,0), got ({},{})", flag, y))
        };
    }
    if den.is_zero() {
        return if !flag && y.is_zero() {
            Ok(3)
        } else {
            Err(format!("den=0 must give (false,0), got ({},{})", flag, y))
        };
    }
    let lhs = f.mul(&f.sqr(y), den);
    if flag {
        if lhs == *num {
            Ok(1)
        } else {
            Err("flag=true but y^2*den != num".into())
        }
    } else if lhs == f.mul(zeta(), num) {
        Ok(4)
    } else {
        Err("flag=false but y^2*den != zeta*num".into())
    }
}

/// The 16 Sage vectors of `tests/encoding.rs` (multiples 0..15 of the basepoint).
pub const SAGE_VECTORS: [&str; 16] = [
    "0000000000000000000000000000000000000000000000000000000000000000",
    "0800000000000000000000000000000000000000000000000000000000000000",
    "b2ecf9b9082d6306538be73b0d6ee741141f3222152da78685d6596efc8c1506",
    "2ebd42dd3a2307083c834e79fb9e787e352dd33e0d719f86ae4adb02fe382409",
    "6acd327d70f9588fac373d165f4d9d5300510274dffdfdf2bf0955acd78da50d",
    "460f913e516441c286d95dd30b0a2d2bf14264f325528b06455d7cb93ba13a0b",
    "ec8798bcbb3bf29329549d769f89cf7993e15e2c68ec7aa2a956edf5ec62ae07",
    "48b01e513dd37d94c3b48940dc133b92ccba7f546e99d3fc2e602d284f609f00",
    "a4e85dddd19c80ecf5ef10b9d27b6626ac1a4f90bd10d263c717ecce4da6570a",
    "1a8fea8cbfbc91236d8c7924e3e7e617f9dd544b710ee83827737fe8dc63ae00",
    "0a0f86eaac0c1af30eb138467c49381edb2808904c81a4b81d2b02a2d7816006",
    "588125a8f4e2bab8d16affc4ca60c5f64b50d38d2bb053148021631f72e99b06",
    "f43f4cefbe7326eaab1584722b1b4860de554b23a14490a03f3fd63a089add0b",
    "76c739a33ffd15cf6554a8e705dc573f26490b64de0c5bd4e4ac75ed5af8e60b",
    "200136952d18d3f6c70347032ba3fef4f60c240d706be2950b4f42f1a7087705",
    "bcb0f922df1c7aa9579394020187a2e19e2d8073452c6ab9b0c4b052aa50f505",
];

pub fn self_test() -> Result<(), String> {
    let f = fq();
    if f.is_square(zeta()) {
        return Err("zeta is a square".into());
    }
    if f.is_square(&d()) {
        return Err("d is a square (addition law would not be complete)".into());
    }
    let g = generator();
    if !on_curve(g) {
        return Err("generator off curve".into());
    }
    if !r_times_is_identity(g) {
        return Err("[r]B != identity".into());
    }
    // k*B for k = 0..15 against the Sage vectors
    let mut acc = identity();
    for (k, hexs) in SAGE_VECTORS.iter().enumerate() {
        let want = crate::digest::unhex(hexs).ok_or("bad vector hex")?;
        let got = encode(&acc).ok_or("encode undefined")?;
        if got[..] != want[..] {
            return Err(format!(
                "sage vector {} mismatch: got {}",
                k,
                crate::digest::hex(&got)
            ));
        }
        let mut arr = [0u8; 32];
        arr.copy_from_slice(&want);
        let back = decode(&arr).map_err(|e| format!("vector {} rejected: {:?}", k, e))?;
        if !equal(&back, &acc) {
            return Err(format!("vector {} decodes to another element", k));
        }
        // decode gives the canonical representative: re-encoding it is stable
        if encode(&back).ok_or("encode undefined")? != arr {
            return Err(format!("vector {} re-encode differs", k));
        }
        acc = add(&acc, g);
    }
    // scalar_mul agrees with repeated addition; other coset representative encodes equally
    let k15 = scalar_mul(&BigUint::from(15u32), g);
    let mut a15 = identity();
    for _ in 0..15 {
        a15 = add(&a15, g);
    }
    if k15 != a15 {
        return Err("scalar_mul disagrees with repeated addition".into());
    }
    let t2 = Pt {
        x: BigUint::zero(),
        y: f.neg(&BigUint::one()),
    };
    let other = add(&k15, &t2);
    if encode(&other) != encode(&k15) || !equal(&other, &k15) {
        return Err("coset representatives encode differently".into());
    }
    if valid_representative(&other).is_err() || valid_representative(&k15).is_err() {
        return Err("valid_representative rejects a valid point".into());
    }
    // a 4-torsion translate is on the curve but not valid
    let t4 = t4();
    if !on_curve(&t4) {
        return Err("(i,0) should be on the curve".into());
    }
    let bad = add(&k15, &t4);
    if !on_curve(&bad) || valid_representative(&bad).is_ok() {
        return Err("valid_representative accepts B*15+T4".into());
    }
    // known rejections
    let mut m1 = [0u8; 32];
    m1.copy_from_slice(&f.to_le(&(&f.p - 1u32)));
    if decode(&m1) != Err(Reject::MinusOne) {
        return Err("s = -1 must be rejected as minus_one".into());
    }
    let mut one = [0u8; 32];
    one[0] = 1;
    if decode(&one) != Err(Reject::Negative) {
        return Err("s = 1 must be rejected as negative".into());
    }
    let mut qb = [0u8; 32];
    qb.copy_from_slice(&f.p.to_bytes_le());
    if decode(&qb) != Err(Reject::NonCanonical) {
        return Err("s = q must be rejected as non-canonical".into());
    }
    Ok(())
}

#[cfg(test)]
mod tests {
    #[test]
    fn selftest() {
        super::self_test().unwrap();
    }
}
