//! The only source of pseudo-randomness in the harness.
//!
//! Implemented here (not taken from `rand`) so that the value stream is a pure
//! function of the seed and of this file.

pub const DEFAULT_SEED: u64 = 3737842551; // 0xDECAF377
pub const PHI: u64 = 0x9E37_79B9_7F4A_7C15;

#[inline]
pub fn splitmix64(state: &mut u64) -> u64 {
    *state = state.wrapping_add(PHI);
    let mut z = *state;
    z = (z ^ (z >> 30)).wrapping_mul(0xBF58_476D_1CE4_E5B9);
    z = (z ^ (z >> 27)).wrapping_mul(0x94D0_49BB_1331_11EB);
    z ^ (z >> 31)
}

/// Seed of run `i` of a batch started with `seed`.
pub fn run_seed(seed: u64, i: u64) -> u64 {
    let mut s = seed ^ PHI.wrapping_mul(i.wrapping_add(1));
    splitmix64(&mut s)
}

/// Seed of a named sub-stream of a batch (tiers, engines).
pub fn sub_seed(seed: u64, name: &str) -> u64 {
    let mut h = crate::digest::Fnv::new();
    h.bytes(name.as_bytes());
    let mut s = seed ^ h.finish();
    splitmix64(&mut s)
}

#[derive(Clone, Debug)]
pub struct Rng {
    s: [u64; 4],
    pub draws: u64,
}

impl Rng {
    pub fn new(seed: u64) -> Self {
        let mut sm = seed;
        let s = [
            splitmix64(&mut sm),
            splitmix64(&mut sm),
            splitmix64(&mut sm),
            splitmix64(&mut sm),
        ];
        Rng { s, draws: 0 }
    }

    /// xoshiro256**
    #[inline]
    pub fn next_u64(&mut self) -> u64 {
        self.draws += 1;
        let result = self.s[1].wrapping_mul(5).rotate_left(7).wrapping_mul(9);
        let t = self.s[1] << 17;
        self.s[2] ^= self.s[0];
        self.s[3] ^= self.s[1];
        self.s[1] ^= self.s[2];
        self.s[0] ^= self.s[3];
        self.s[2] ^= t;
        self.s[3] = self.s[3].rotate_left(45);
        result
    }

    /// Uniform in `0..n` (n > 0). Multiply-shift; bias is irrelevant here.
    #[inline]
    pub fn below(&mut self, n: u64) -> u64 {
        debug_assert!(n > 0);
        ((self.next_u64() as u128 * n as u128) >> 64) as u64
    }

    #[inline]
    pub fn usize_below(&mut self, n: usize) -> usize {
        self.below(n as u64) as usize
    }

    /// Uniform in `lo..=hi`.
    #[inline]
    pub fn range(&mut self, lo: u64, hi: u64) -> u64 {
        lo + self.below(hi - lo + 1)
    }

    /// True with probability num/den.
    #[inline]
    pub fn chance(&mut self, num: u64, den: u64) -> bool {
        self.below(den) < num
    }

    pub fn pick<'a, T>(&mut self, xs: &'a [T]) -> &'a T {
        &xs[self.usize_below(xs.len())]
    }

    /// Index drawn with the given integer weights.
    pub fn weighted(&mut self, weights: &[u64]) -> usize {
        let total: u64 = weights.iter().sum();
        let mut x = self.below(total.max(1));
        for (i, w) in weights.iter().enumerate() {
            if x < *w {
                return i;
            }
            x -= *w;
        }
        weights.len() - 1
    }

    pub fn fill(&mut self, buf: &mut [u8]) {
        for chunk in buf.chunks_mut(8) {
            let v = self.next_u64().to_le_bytes();
            chunk.copy_from_slice(&v[..chunk.len()]);
        }
    }

    pub fn bytes(&mut self, n: usize) -> Vec<u8> {
        let mut v = vec![0u8; n];
        self.fill(&mut v);
        v
    }

    pub fn array32(&mut self) -> [u8; 32] {
        let mut a = [0u8; 32];
        self.fill(&mut a);
        a
    }

    pub fn shuffle<T>(&mut self, xs: &mut [T]) {
        for i in (1..xs.len()).rev() {
            let j = self.usize_below(i + 1);
            xs.swap(i, j);
        }
    }
}

#[cfg(test)]
mod tests {
    use super::*;
    #[test]
    fn stable_stream() {
        let mut r = Rng::new(DEFAULT_SEED);
        let a: Vec<u64> = (0..4).map(|_| r.next_u64()).collect();
        let mut r2 = Rng::new(DEFAULT_SEED);
        let b: Vec<u64> = (0..4).map(|_| r2.next_u64()).collect();
        assert_eq!(a, b);
        assert_ne!(a[0], a[1]);
    }
}
