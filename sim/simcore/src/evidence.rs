//! Evidence files (`/verif/evidence/<id>.json`) and the common outcome type.

use serde_json::{json, Map, Value};
use std::collections::BTreeMap;
use std::path::Path;

#[derive(Clone, Debug, Default)]
pub struct Coverage {
    pub evaluations: u64,
    pub distinct_nontrivial: u64,
    pub rule: String,
    pub samples: Vec<Value>,
    pub exhaustive: Option<bool>,
    pub sim_steps: u64,
    pub fault_counts: BTreeMap<String, u64>,
    pub probes: BTreeMap<String, u64>,
    pub fault_free_runs: u64,
    pub components_real: Vec<String>,
    pub components_stub: Vec<String>,
    pub extra: BTreeMap<String, Value>,
}

impl Coverage {
    pub fn bump_fault(&mut self, k: &str, n: u64) {
        *self.fault_counts.entry(k.to_string()).or_insert(0) += n;
    }
    pub fn bump_probe(&mut self, k: &str, n: u64) {
        *self.probes.entry(k.to_string()).or_insert(0) += n;
    }
}

pub struct Evidence<'a> {
    pub property_id: &'a str,
    pub tier: &'a str,
    pub seed: u64,
    pub level: &'a str,
    pub coverage: &'a Coverage,
    pub assumptions: Vec<String>,
    pub wall_s: f64,
    pub violations: u64,
    pub known_findings_seen: Vec<String>,
}

pub fn write(path: &Path, ev: &Evidence) -> std::io::Result<()> {
    let c = ev.coverage;
    let mut cov = Map::new();
    cov.insert("evaluations".into(), json!(c.evaluations));
    cov.insert("distinct_nontrivial".into(), json!(c.distinct_nontrivial));
    cov.insert("rule".into(), json!(c.rule));
    cov.insert("samples".into(), Value::Array(c.samples.clone()));
    if let Some(e) = c.exhaustive {
        cov.insert("exhaustive".into(), json!(e));
    }
    cov.insert("sim_steps".into(), json!(c.sim_steps));
    let runs_per_hour = if ev.wall_s > 0.0 {
        (c.evaluations as f64 / ev.wall_s * 3600.0).round()
    } else {
        0.0
    };
    cov.insert("runs_per_hour".into(), json!(runs_per_hour));
    cov.insert("fault_counts".into(), json!(c.fault_counts));
    cov.insert("probes".into(), json!(c.probes));
    cov.insert("fault_free_runs".into(), json!(c.fault_free_runs));
    cov.insert(
        "components".into(),
        json!({"real": c.components_real, "stub": c.components_stub}),
    );
    cov.insert("known_findings_seen".into(), json!(ev.known_findings_seen));
    for (k, v) in &c.extra {
        cov.insert(k.clone(), v.clone());
    }
    let doc = json!({
        "property_id": ev.property_id,
        "tier": ev.tier,
        "seed": ev.seed,
        "level": ev.level,
        "coverage": Value::Object(cov),
        "assumptions": ev.assumptions,
        "wall_s": ev.wall_s,
        "violations": ev.violations,
    });
    if let Some(dir) = path.parent() {
        std::fs::create_dir_all(dir)?;
    }
    let tmp = path.with_extension("json.tmp");
    std::fs::write(&tmp, serde_json::to_string_pretty(&doc).unwrap() + "\n")?;
    std::fs::rename(&tmp, path)
}
