//! FNV-1a 64-bit digests for abstract traces and event logs.

#[derive(Clone, Copy, Debug)]
pub struct Fnv(u64);

impl Default for Fnv {
    fn default() -> Self {
        Self::new()
    }
}

impl Fnv {
    pub const fn new() -> Self {
        Fnv(0xcbf2_9ce4_8422_2325)
    }
    #[inline]
    pub fn byte(&mut self, b: u8) {
        self.0 ^= b as u64;
        self.0 = self.0.wrapping_mul(0x0000_0100_0000_01B3);
    }
    #[inline]
    pub fn bytes(&mut self, bs: &[u8]) {
        for b in bs {
            self.byte(*b);
        }
    }
    #[inline]
    pub fn u64(&mut self, v: u64) {
        self.bytes(&v.to_le_bytes());
    }
    #[inline]
    pub fn str(&mut self, s: &str) {
        self.bytes(s.as_bytes());
        self.byte(0xff);
    }
    pub fn finish(&self) -> u64 {
        self.0
    }
}

pub fn hex(bytes: &[u8]) -> String {
    let mut s = String::with_capacity(bytes.len() * 2);
    for b in bytes {
        s.push_str(&format!("{:02x}", b));
    }
    s
}

pub fn unhex(s: &str) -> Option<Vec<u8>> {
    if s.len() % 2 != 0 {
        return None;
    }
    let mut out = Vec::with_capacity(s.len() / 2);
    let b = s.as_bytes();
    for i in (0..b.len()).step_by(2) {
        let h = (b[i] as char).to_digit(16)?;
        let l = (b[i + 1] as char).to_digit(16)?;
        out.push((h * 16 + l) as u8);
    }
    Some(out)
}
