//! Reference model: integers modulo a prime, as `BigUint`.
//!
//! Shares no code and no constant with the crate under test. The three moduli
//! are typed in from the specification (README / `ristretto.sage` /
//! `utils/field_properties.py` list them); everything else (bit length,
//! 2-adicity, a non-residue for Tonelli-Shanks) is derived here from the
//! modulus alone.

use num_bigint::BigUint;
use num_traits::{One, Zero};
use std::sync::OnceLock;

#[derive(Debug)]
pub struct Fld {
    pub name: &'static str,
    pub p: BigUint,
    pub bits: usize,
    pub nbytes: usize,
    /// p - 1 = 2^s * t, t odd
    pub two_adicity: u32,
    pub trace: BigUint,
    /// smallest non-residue found by search (Euler criterion), for Tonelli-Shanks
    pub nonresidue: BigUint,
    pub half: BigUint, // (p-1)/2
}

pub const Q_DEC: &str =
    "8444461749428370424248824938781546531375899335154063827935233455917409239041";
pub const R_DEC: &str =
    "2111115437357092606062206234695386632838870926408408195193685246394721360383";
pub const P_DEC: &str = "258664426012969094010652733694893533536393512754914660539884262666720468348340822774968888139573360124440321458177";

impl Fld {
    pub fn new(name: &'static str, dec: &str) -> Fld {
        let p = BigUint::parse_bytes(dec.as_bytes(), 10).expect("modulus literal");
        let bits = p.bits() as usize;
        let nbytes = (bits + 7) / 8;
        let pm1 = &p - 1u32;
        let mut t = pm1.clone();
        let mut s = 0u32;
        while (&t & BigUint::one()).is_zero() {
            t >>= 1;
            s += 1;
        }
        let half = &pm1 >> 1;
        let mut nr = BigUint::from(2u32);
        loop {
            if nr.modpow(&half, &p) == pm1 {
                break;
            }
            nr += 1u32;
        }
        Fld {
            name,
            p,
            bits,
            nbytes,
            two_adicity: s,
            trace: t,
            nonresidue: nr,
            half,
        }
    }

    pub fn red(&self, x: &BigUint) -> BigUint {
        x % &self.p
    }
    pub fn add(&self, a: &BigUint, b: &BigUint) -> BigUint {
        (a + b) % &self.p
    }
    pub fn sub(&self, a: &BigUint, b: &BigUint) -> BigUint {
        ((a + &self.p) - (b % &self.p)) % &self.p
    }
    pub fn neg(&self, a: &BigUint) -> BigUint {
        if a.is_zero() {
            BigUint::zero()
        } else {
            &self.p - (a % &self.p)
        }
    }
    pub fn mul(&self, a: &BigUint, b: &BigUint) -> BigUint {
        (a * b) % &self.p
    }
    pub fn sqr(&self, a: &BigUint) -> BigUint {
        (a * a) % &self.p
    }
    pub fn pow(&self, a: &BigUint, e: &BigUint) -> BigUint {
        a.modpow(e, &self.p)
    }
    /// Inverse by Fermat; inverse of 0 is 0 (callers test for zero first).
    pub fn inv(&self, a: &BigUint) -> BigUint {
        let e = &self.p - 2u32;
        a.modpow(&e, &self.p)
    }
    /// Euler criterion. 0 counts as a square.
    pub fn is_square(&self, a: &BigUint) -> bool {
        if a.is_zero() {
            return true;
        }
        a.modpow(&self.half, &self.p).is_one()
    }
    /// Plain Tonelli-Shanks. Returns some square root (sign unspecified).
    pub fn sqrt(&self, a: &BigUint) -> Option<BigUint> {
        if a.is_zero() {
            return Some(BigUint::zero());
        }
        if !self.is_square(a) {
            return None;
        }
        let mut m = self.two_adicity;
        let mut c = self.nonresidue.modpow(&self.trace, &self.p);
        let mut t = a.modpow(&self.trace, &self.p);
        let e = (&self.trace + 1u32) >> 1;
        let mut r = a.modpow(&e, &self.p);
        while !t.is_one() {
            // least i with t^(2^i) = 1
            let mut i = 0u32;
            let mut tt = t.clone();
            while !tt.is_one() {
                tt = self.sqr(&tt);
                i += 1;
                if i >= m {
                    return None; // cannot happen for a square
                }
            }
            let mut b = c.clone();
            for _ in 0..(m - i - 1) {
                b = self.sqr(&b);
            }
            m = i;
            c = self.sqr(&b);
            t = self.mul(&t, &c);
            r = self.mul(&r, &b);
        }
        debug_assert_eq!(self.sqr(&r), a % &self.p);
        Some(r)
    }

    pub fn is_negative(&self, a: &BigUint) -> bool {
        (a % &self.p).bit(0)
    }
    pub fn abs(&self, a: &BigUint) -> BigUint {
        if self.is_negative(a) {
            self.neg(a)
        } else {
            a % &self.p
        }
    }

    /// Canonical little-endian bytes of a reduced value.
    pub fn to_le(&self, a: &BigUint) -> Vec<u8> {
        let mut v = (a % &self.p).to_bytes_le();
        v.resize(self.nbytes, 0);
        v
    }
    /// Integer denoted by little-endian bytes (not reduced).
    pub fn int_le(bytes: &[u8]) -> BigUint {
        BigUint::from_bytes_le(bytes)
    }
    pub fn int_be(bytes: &[u8]) -> BigUint {
        BigUint::from_bytes_be(bytes)
    }
    pub fn is_canonical(&self, x: &BigUint) -> bool {
        x < &self.p
    }
    pub fn from_u64(&self, v: u64) -> BigUint {
        BigUint::from(v) % &self.p
    }
}

/// A field element whose *internal* (Montgomery, R = 2^(8 nbytes)) representation is structured: 64-bit
/// or 32-bit limbs that are all-ones, all-zero or tiny, the rest arbitrary. `pick(n)` returns a number
/// below n; `word()` 64 arbitrary bits. Uniform inputs meet such limbs with probability 2^-32 or less,
/// yet sentinel values, limb-wise comparisons and carry chains key on them.
pub fn mont_structured(f: &Fld, pick: &mut dyn FnMut(u64) -> u64, word: &mut dyn FnMut() -> u64) -> BigUint {
    let nl = f.nbytes / 8;
    let mut limbs: Vec<u64> = (0..nl).map(|_| word()).collect();
    match pick(6) {
        0 => limbs[0] = u64::MAX,
        1 => {
            // the low k limbs zero
            let k = 1 + pick((nl - 1) as u64) as usize;
            for l in limbs.iter_mut().take(k) {
                *l = 0;
            }
        }
        2 => {
            let i = pick(nl as u64) as usize;
            limbs[i] = if pick(2) == 0 { u64::MAX } else { 0 };
        }
        3 => {
            // 32-bit halves: one all-ones or zero half-limb
            let i = pick(nl as u64) as usize;
            let v = if pick(2) == 0 { 0xffff_ffffu64 } else { 0 };
            if pick(2) == 0 {
                limbs[i] = (limbs[i] & 0xffff_ffff_0000_0000) | v;
            } else {
                limbs[i] = (limbs[i] & 0x0000_0000_ffff_ffff) | (v << 32);
            }
        }
        4 => {
            for l in limbs.iter_mut() {
                *l = match pick(3) {
                    0 => 0,
                    1 => u64::MAX,
                    _ => *l,
                };
            }
        }
        _ => {
            // every limb all-ones except the top one
            for l in limbs.iter_mut().take(nl - 1) {
                *l = u64::MAX;
            }
        }
    }
    // keep the Montgomery value below p: shrink the top limb
    let top_p = (&f.p >> (64 * (nl - 1))).to_u64_digits().first().copied().unwrap_or(0);
    if top_p > 0 {
        limbs[nl - 1] %= top_p;
    }
    let mut m = BigUint::zero();
    for l in limbs.iter().rev() {
        m = (m << 64usize) + BigUint::from(*l);
    }
    let r = (BigUint::one() << (8 * f.nbytes)) % &f.p;
    f.mul(&m, &f.inv(&r))
}

pub fn fq() -> &'static Fld {
    static F: OnceLock<Fld> = OnceLock::new();
    F.get_or_init(|| Fld::new("Fq", Q_DEC))
}
pub fn fr() -> &'static Fld {
    static F: OnceLock<Fld> = OnceLock::new();
    F.get_or_init(|| Fld::new("Fr", R_DEC))
}
pub fn fp() -> &'static Fld {
    static F: OnceLock<Fld> = OnceLock::new();
    F.get_or_init(|| Fld::new("Fp", P_DEC))
}

/// Start-up self test of the reference field models; `Err` = harness defect.
pub fn self_test() -> Result<(), String> {
    let (q, r, p) = (fq(), fr(), fp());
    if q.bits != 253 || q.nbytes != 32 || q.two_adicity != 47 {
        return Err(format!("Fq shape: {} bits, 2-adicity {}", q.bits, q.two_adicity));
    }
    if r.bits != 251 || r.nbytes != 32 || r.two_adicity != 1 {
        return Err(format!("Fr shape: {} bits, 2-adicity {}", r.bits, r.two_adicity));
    }
    if p.bits != 377 || p.nbytes != 48 || p.two_adicity != 46 {
        return Err(format!("Fp shape: {} bits, 2-adicity {}", p.bits, p.two_adicity));
    }
    // hex forms quoted in the crate's documentation / field_properties.py
    let qhex = "12ab655e9a2ca55660b44d1e5c37b00159aa76fed00000010a11800000000001";
    if format!("{:x}", q.p) != qhex {
        return Err("Fq modulus literal mismatch (decimal vs hex)".into());
    }
    let rhex = "4aad957a68b2955982d1347970dec005293a3afc43c8afeb95aee9ac33fd9ff";
    if format!("{:x}", r.p) != rhex {
        return Err("Fr modulus literal mismatch (decimal vs hex)".into());
    }
    let phex = "1ae3a4617c510eac63b05c06ca1493b1a22d9f300f5138f1ef3622fba094800170b5d44300000008508c00000000001";
    if format!("{:x}", p.p) != phex {
        return Err("Fp modulus literal mismatch (decimal vs hex)".into());
    }
    for f in [q, r, p] {
        // sqrt on a few squares and non-squares
        for k in 2u64..40 {
            let a = f.from_u64(k * k + 7 * k);
            match f.sqrt(&a) {
                Some(s) => {
                    if f.sqr(&s) != a {
                        return Err(format!("{} sqrt wrong", f.name));
                    }
                }
                None => {
                    if f.is_square(&a) {
                        return Err(format!("{} sqrt missing", f.name));
                    }
                }
            }
            let inv = f.inv(&a);
            if !a.is_zero() && !f.mul(&a, &inv).is_one() {
                return Err(format!("{} inv wrong", f.name));
            }
        }
        if f.is_square(&f.nonresidue) {
            return Err(format!("{} nonresidue is a square", f.name));
        }
    }
    Ok(())
}

#[cfg(test)]
mod tests {
    #[test]
    fn selftest() {
        super::self_test().unwrap();
    }
}
