//! Shared simulator core: PRNG, digests, reference models (the oracles),
//! evidence writer, known-findings list, deterministic parallel batches.
pub mod decaf;
pub mod digest;
pub mod evidence;
pub mod field;
pub mod known;
pub mod par;
pub mod poly;
pub mod prng;

/// Exit codes shared by all engines.
pub const EXIT_OK: i32 = 0;
pub const EXIT_VIOLATION: i32 = 1;
pub const EXIT_HARNESS: i32 = 2;
