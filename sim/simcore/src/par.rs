//! Deterministic parallel batches: run index -> result, merged in index order,
//! so that the outcome is identical for any worker count.

use std::sync::atomic::{AtomicBool, AtomicU64, Ordering};
use std::sync::Mutex;

/// Runs `f` on a fresh OS thread and returns its result. Every simulated run
/// gets its own thread so that thread-local state inside the code under test
/// (caches, scratch buffers) cannot leak from one run into the next: a run
/// stays a pure function of its (workload, fault plan), and replays in a fresh
/// process reproduce.
pub fn isolated<R: Send>(f: impl FnOnce() -> R + Send) -> R {
    if std::env::var_os("VERIF_NO_ISOLATE").is_some() {
        return f(); // measurement aid only
    }
    std::thread::scope(|s| {
        std::thread::Builder::new()
            .stack_size(8 << 20)
            .spawn_scoped(s, f)
            .expect("spawn run thread")
            .join()
            .unwrap_or_else(|p| std::panic::resume_unwind(p))
    })
}

pub fn workers() -> usize {
    if let Ok(v) = std::env::var("VERIF_WORKERS") {
        if let Ok(n) = v.parse::<usize>() {
            if n >= 1 {
                return n;
            }
        }
    }
    std::thread::available_parallelism()
        .map(|n| n.get())
        .unwrap_or(4)
}

/// Runs `f(i)` for `i in 0..n` on `workers` threads; results are folded into
/// `acc` strictly in index order by `merge`. `merge` returns `false` to stop
/// the batch early (remaining indices are skipped; those already computed with
/// a larger index than the stopping one are discarded, so the result does not
/// depend on scheduling).
pub fn run_batch<R, A, F, M>(n: u64, workers: usize, f: F, acc: &mut A, merge: M)
where
    R: Send,
    F: Fn(u64) -> R + Sync,
    M: FnMut(&mut A, u64, R) -> bool,
{
    run_batch_guarded(n, workers, f, acc, merge, None)
}

/// Last-resort watchdog for code under test that never returns (a retry loop
/// that spins without touching any seam): `(limit, on_hang)`. If one run takes
/// longer than `limit` of wall-clock time, `on_hang(run index)` is called from
/// the merging thread; it is expected to report and end the process. Ordinary
/// runs take milliseconds, the limit is minutes: the wall clock decides nothing
/// unless a run hangs.
pub type Guard<'a> = Option<(std::time::Duration, &'a (dyn Fn(u64) + Sync))>;

pub fn run_batch_guarded<R, A, F, M>(n: u64, workers: usize, f: F, acc: &mut A, mut merge: M, guard: Guard)
where
    R: Send,
    F: Fn(u64) -> R + Sync,
    M: FnMut(&mut A, u64, R) -> bool,
{
    // per worker: (run index + 1, start in ms since t0); 0 = idle
    let t0 = std::time::Instant::now();
    let slots: Vec<(AtomicU64, AtomicU64)> = (0..workers.max(1)).map(|_| (AtomicU64::new(0), AtomicU64::new(0))).collect();
    let slots = &slots;
    const CHUNK: u64 = 64;
    let next = AtomicU64::new(0);
    let stop = AtomicBool::new(false);
    // completed chunks waiting to be merged, keyed by chunk start
    let done: Mutex<std::collections::BTreeMap<u64, Vec<R>>> = Mutex::new(Default::default());
    let mut merged_upto: u64 = 0;
    let mut stopped = false;
    std::thread::scope(|s| {
        let mut handles = Vec::new();
        for wi in 0..workers.max(1) {
            let next = &next;
            let stop = &stop;
            let done = &done;
            let f = &f;
            handles.push(s.spawn(move || loop {
                if stop.load(Ordering::Relaxed) {
                    break;
                }
                let start = next.fetch_add(CHUNK, Ordering::Relaxed);
                if start >= n {
                    break;
                }
                let end = (start + CHUNK).min(n);
                let mut v = Vec::with_capacity((end - start) as usize);
                for i in start..end {
                    slots[wi].1.store(t0.elapsed().as_millis() as u64, Ordering::Relaxed);
                    slots[wi].0.store(i + 1, Ordering::Relaxed);
                    v.push(f(i));
                    slots[wi].0.store(0, Ordering::Relaxed);
                }
                done.lock().unwrap().insert(start, v);
            }));
        }
        // merge in order while workers run
        loop {
            let item = { done.lock().unwrap().remove(&merged_upto) };
            match item {
                Some(v) => {
                    let len = v.len() as u64;
                    for (k, r) in v.into_iter().enumerate() {
                        if !stopped && !merge(acc, merged_upto + k as u64, r) {
                            stopped = true;
                            stop.store(true, Ordering::Relaxed);
                        }
                    }
                    merged_upto += len;
                }
                None => {
                    if merged_upto >= n || stopped {
                        break;
                    }
                    if handles.iter().all(|h| h.is_finished()) {
                        // drain whatever is left, in order
                        let mut d = done.lock().unwrap();
                        if d.contains_key(&merged_upto) {
                            continue;
                        }
                        if d.is_empty() {
                            break;
                        }
                        // a gap can only exist after a stop request
                        d.clear();
                        break;
                    }
                    if let Some((limit, on_hang)) = &guard {
                        let now = t0.elapsed().as_millis() as u64;
                        for (idx, started) in slots.iter() {
                            let i = idx.load(Ordering::Relaxed);
                            if i > 0 && now.saturating_sub(started.load(Ordering::Relaxed)) > limit.as_millis() as u64 {
                                on_hang(i - 1);
                            }
                        }
                    }
                    std::thread::sleep(std::time::Duration::from_millis(1));
                }
            }
        }
        for h in handles {
            let _ = h.join();
        }
    });
}
