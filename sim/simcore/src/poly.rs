//! Root finding for small polynomials over Fq (reference side only).
//!
//! Used to build decoder inputs with a *prescribed discriminant*: the decoder
//! takes the square root of 1/(u_2 u_1^2); choosing that quantity lets the
//! workload drive the table-driven square-root routine through decoding
//! (every table digit pattern), which random or near-miss encodings never do.

use crate::field::Fld;
use crate::prng::Rng;
use num_bigint::BigUint;
use num_traits::{One, Zero};

type Poly = Vec<BigUint>; // little-endian coefficients, no trailing zeros

fn trim(mut p: Poly) -> Poly {
    while p.last().map(|c| c.is_zero()).unwrap_or(false) {
        p.pop();
    }
    p
}

fn deg(p: &Poly) -> isize {
    p.len() as isize - 1
}

fn sub(f: &Fld, a: &Poly, b: &Poly) -> Poly {
    let n = a.len().max(b.len());
    let z = BigUint::zero();
    trim((0..n)
        .map(|i| f.sub(a.get(i).unwrap_or(&z), b.get(i).unwrap_or(&z)))
        .collect())
}

fn mul(f: &Fld, a: &Poly, b: &Poly) -> Poly {
    if a.is_empty() || b.is_empty() {
        return vec![];
    }
    let mut out = vec![BigUint::zero(); a.len() + b.len() - 1];
    for (i, x) in a.iter().enumerate() {
        for (j, y) in b.iter().enumerate() {
            out[i + j] = f.add(&out[i + j], &f.mul(x, y));
        }
    }
    trim(out)
}

/// remainder of a modulo m (m non-zero)
fn rem(f: &Fld, a: &Poly, m: &Poly) -> Poly {
    let mut r = a.clone();
    let dm = deg(m);
    let lead_inv = f.inv(m.last().unwrap());
    while deg(&r) >= dm && !r.is_empty() {
        let shift = (deg(&r) - dm) as usize;
        let coef = f.mul(r.last().unwrap(), &lead_inv);
        for (i, c) in m.iter().enumerate() {
            let v = f.sub(&r[i + shift], &f.mul(&coef, c));
            r[i + shift] = v;
        }
        r = trim(r);
    }
    r
}

fn gcd(f: &Fld, a: &Poly, b: &Poly) -> Poly {
    let (mut x, mut y) = (a.clone(), b.clone());
    while !y.is_empty() {
        let r = rem(f, &x, &y);
        x = y;
        y = r;
    }
    // monic
    if let Some(l) = x.last().cloned() {
        let li = f.inv(&l);
        x = x.iter().map(|c| f.mul(c, &li)).collect();
    }
    x
}

fn powmod(f: &Fld, base: &Poly, e: &BigUint, m: &Poly) -> Poly {
    let mut acc: Poly = vec![BigUint::one()];
    let b = rem(f, base, m);
    for i in (0..e.bits()).rev() {
        acc = rem(f, &mul(f, &acc, &acc), m);
        if e.bit(i) {
            acc = rem(f, &mul(f, &acc, &b), m);
        }
    }
    acc
}

/// All roots in the field of the polynomial with these little-endian coefficients.
pub fn roots(f: &Fld, coeffs: &[BigUint], rng: &mut Rng) -> Vec<BigUint> {
    let p = trim(coeffs.to_vec());
    if deg(&p) < 1 {
        return vec![];
    }
    let x: Poly = vec![BigUint::zero(), BigUint::one()];
    // product of the distinct linear factors: gcd(x^q - x, p)
    let xq = powmod(f, &x, &f.p, &p);
    let g = gcd(f, &sub(f, &xq, &x), &p);
    let mut out = Vec::new();
    split(f, g, rng, &mut out, 0);
    out.sort();
    out.dedup();
    out
}

fn split(f: &Fld, g: Poly, rng: &mut Rng, out: &mut Vec<BigUint>, depth: u32) {
    match deg(&g) {
        d if d < 1 => {}
        1 => {
            // x + c0 (monic): root = -c0
            out.push(f.neg(&g[0]));
        }
        _ => {
            if depth > 64 {
                return;
            }
            // random shift, then the (q-1)/2-th power separates roots by quadratic character
            let a = Fld::int_le(&rng.bytes(32)) % &f.p;
            let lin: Poly = vec![a, BigUint::one()];
            let h = powmod(f, &lin, &f.half, &g);
            let h1 = sub(f, &h, &vec![BigUint::one()]);
            let d1 = gcd(f, &h1, &g);
            if deg(&d1) >= 1 && deg(&d1) < deg(&g) {
                // g / d1
                let other = div_exact(f, &g, &d1);
                split(f, d1, rng, out, depth + 1);
                split(f, other, rng, out, depth + 1);
            } else {
                split(f, g, rng, out, depth + 1);
            }
        }
    }
}

fn div_exact(f: &Fld, a: &Poly, m: &Poly) -> Poly {
    let mut r = a.clone();
    let dm = deg(m);
    let lead_inv = f.inv(m.last().unwrap());
    let mut q = vec![BigUint::zero(); (deg(a) - dm + 1).max(0) as usize];
    while deg(&r) >= dm && !r.is_empty() {
        let shift = (deg(&r) - dm) as usize;
        let coef = f.mul(r.last().unwrap(), &lead_inv);
        q[shift] = coef.clone();
        for (i, c) in m.iter().enumerate() {
            let v = f.sub(&r[i + shift], &f.mul(&coef, c));
            r[i + shift] = v;
        }
        r = trim(r);
    }
    trim(q)
}

/// Field elements s (even, canonical: acceptable to the sign rule) whose decoding discriminant
/// u_2 * u_1^2 (u_1 = 1 - s^2, u_2 = u_1^2 - 4 d s^2) equals `c`.
pub fn encodings_with_discriminant(f: &Fld, d: &BigUint, c: &BigUint, rng: &mut Rng) -> Vec<BigUint> {
    // with w = u_1: w^4 + 4d w^3 - 4d w^2 - c = 0
    let four_d = f.mul(&BigUint::from(4u32), d);
    let coeffs = vec![
        f.neg(c),
        BigUint::zero(),
        f.neg(&four_d),
        four_d.clone(),
        BigUint::one(),
    ];
    let mut out = Vec::new();
    for w in roots(f, &coeffs, rng) {
        let t = f.sub(&BigUint::one(), &w); // s^2
        if let Some(s) = f.sqrt(&t) {
            let s = if f.is_negative(&s) { f.neg(&s) } else { s };
            out.push(s);
        }
    }
    out
}

#[cfg(test)]
mod tests {
    use super::*;
    use crate::field::fq;
    #[test]
    fn quartic_roots() {
        let f = fq();
        let mut rng = Rng::new(7);
        // (x-3)(x-5)(x^2+1... ) build from known roots 3, 5, 11, 1000
        let rs = [3u32, 5, 11, 1000];
        let mut p: Poly = vec![BigUint::one()];
        for r in rs {
            p = mul(f, &p, &vec![f.neg(&BigUint::from(r)), BigUint::one()]);
        }
        let got = roots(f, &p, &mut rng);
        let want: Vec<BigUint> = rs.iter().map(|r| BigUint::from(*r)).collect();
        assert_eq!(got, want);
    }
    #[test]
    fn discriminant_inversion() {
        let f = fq();
        let d = BigUint::from(3021u32);
        let mut rng = Rng::new(9);
        // take a known s, compute its discriminant, and recover it
        let s = BigUint::from(8u32);
        let ss = f.sqr(&s);
        let u1 = f.sub(&BigUint::one(), &ss);
        let u2 = f.sub(&f.sqr(&u1), &f.mul(&f.mul(&BigUint::from(4u32), &d), &ss));
        let c = f.mul(&u2, &f.sqr(&u1));
        let found = encodings_with_discriminant(f, &d, &c, &mut rng);
        assert!(found.contains(&s), "{:?}", found);
    }
}

/// 47-bit exponent patterns for the 2-primary part of the ratio handed to the square-root routine:
/// all-ones, single windows, window boundaries, carries of the rounding halving.
pub fn table_digit_patterns() -> Vec<u64> {
    let full: u64 = (1u64 << 47) - 1;
    let mut v: Vec<u64> = vec![0, 1, 2, full, full - 1, 1 << 46, (1 << 46) - 1, (1 << 46) + 1, 0x2AAA_AAAA_AAAA, 0x5555_5555_5555];
    for w in 0..6u32 {
        let ones = (0xFFu64 << (8 * w)) & full;
        let one = 1u64 << (8 * w);
        for e in [ones, one, (full + 1 - ones) & full, (full + 1 - one) & full, ones | 1, one | 1] {
            v.push(e);
        }
    }
    v.sort();
    v.dedup();
    v
}

/// Canonical non-negative s whose decoding takes the square root of a ratio with 2-primary part g^e
/// (g = zeta^trace, of order 2^two_adicity) once raised to the odd cofactor `trace`: ratio = zeta^e * rho, rho of odd order.
pub fn encoding_with_table_digits(f: &Fld, d: &BigUint, zeta: &BigUint, e: u64, rng: &mut Rng) -> Option<BigUint> {
    // (zeta^e * rho)^trace = (zeta^trace)^e: the routine's table digits are those of e (or of its negation)
    let ge = f.pow(zeta, &BigUint::from(e));
    let two_pow = BigUint::one() << (f.two_adicity as usize);
    for _ in 0..64 {
        let r = Fld::int_le(&rng.bytes(32)) % &f.p;
        if r.is_zero() {
            continue;
        }
        let rho = f.pow(&r, &two_pow);
        let ratio = f.mul(&ge, &rho);
        let c = f.inv(&ratio);
        if let Some(s) = encodings_with_discriminant(f, d, &c, rng).into_iter().next() {
            return Some(s);
        }
    }
    None
}

#[cfg(test)]
mod tests2 {
    use super::*;
    use crate::field::fq;
    #[test]
    fn table_probes_found() {
        let f = fq();
        let d = BigUint::from(3021u32);
        let mut rng = Rng::new(11);
        let t0 = std::time::Instant::now();
        let pats = table_digit_patterns();
        let mut n = 0;
        for e in &pats {
            let s = encoding_with_table_digits(f, &d, &f.nonresidue.clone(), *e, &mut rng).expect("found");
            assert!(!f.is_negative(&s));
            // discriminant's inverse has 2-primary part g^e: (1/D)^trace == g^e ... times rho^trace; check via order
            let ss = f.sqr(&s);
            let u1 = f.sub(&BigUint::one(), &ss);
            let u2 = f.sub(&f.sqr(&u1), &f.mul(&f.mul(&BigUint::from(4u32), &d), &ss));
            let disc = f.mul(&u2, &f.sqr(&u1));
            assert_eq!(f.is_square(&disc), e % 2 == 0);
            n += 1;
        }
        eprintln!("{} patterns in {:?}", n, t0.elapsed());
    }
}

#[cfg(test)]
mod tests3 {
    use super::*;
    use crate::field::fq;
    fn comp(f: &Fld, d: &BigUint, s: &BigUint) -> BigUint {
        let ss = f.sqr(s);
        let u1 = f.sub(&BigUint::one(), &ss);
        let u2 = f.sub(&f.sqr(&u1), &f.mul(&f.mul(&BigUint::from(4u32), d), &ss));
        let disc = f.mul(&u2, &f.sqr(&u1));
        f.pow(&f.inv(&disc), &f.trace)
    }
    #[test]
    fn demo_string_pattern() {
        // a string known (from an independent construction) to drive the routine to all-ones digits
        let f = fq();
        let d = BigUint::from(3021u32);
        let zeta = crate::decaf::zeta();
        let g = f.pow(zeta, &f.trace);
        let s = Fld::int_le(&crate::digest::unhex("1c579dfa9bfbb08bb32454e21b72858ce5d2e19143335f46c84a0729c1c8160c").unwrap());
        assert_eq!(comp(f, &d, &s), g);
        let mut rng = Rng::new(5);
        let s2 = encoding_with_table_digits(f, &d, zeta, 1, &mut rng).unwrap();
        assert_eq!(comp(f, &d, &s2), g);
    }
}
