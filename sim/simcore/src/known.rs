//! `/verif/known_findings.txt`: committed list of genuine defects that are
//! recorded rather than repaired. Never written at run time.
//!
//! Line format (one finding per line, `#` starts a comment):
//!
//! ```text
//! known: property=C14 key=<exact violation key> -- free text
//! fixed: property=C06 <commit> <what failed>
//! ```
//!
//! A violation is suppressed only when its *key* (a canonical string that the
//! engine derives from the minimised failing trace: invariant, operation,
//! input class, fault) equals the key of a `known:` line of the same
//! property. `fixed:` lines suppress nothing.

use std::path::Path;

#[derive(Clone, Debug)]
pub struct Known {
    pub property: String,
    pub key: String,
    pub text: String,
}

#[derive(Clone, Debug, Default)]
pub struct KnownFindings {
    pub known: Vec<Known>,
    pub fixed: Vec<String>,
}

impl KnownFindings {
    pub fn load(path: &Path) -> Result<KnownFindings, String> {
        let mut out = KnownFindings::default();
        let text = match std::fs::read_to_string(path) {
            Ok(t) => t,
            Err(e) if e.kind() == std::io::ErrorKind::NotFound => return Ok(out),
            Err(e) => return Err(format!("{}: {}", path.display(), e)),
        };
        for (n, line) in text.lines().enumerate() {
            let line = line.trim();
            if line.is_empty() || line.starts_with('#') {
                continue;
            }
            if let Some(rest) = line.strip_prefix("fixed:") {
                out.fixed.push(rest.trim().to_string());
            } else if let Some(rest) = line.strip_prefix("known:") {
                let rest = rest.trim();
                let (head, text) = match rest.split_once(" -- ") {
                    Some((h, t)) => (h, t.to_string()),
                    None => (rest, String::new()),
                };
                let mut property = None;
                let mut key = None;
                for tok in head.split_whitespace() {
                    if let Some(v) = tok.strip_prefix("property=") {
                        property = Some(v.to_string());
                    } else if let Some(v) = tok.strip_prefix("key=") {
                        key = Some(v.to_string());
                    }
                }
                match (property, key) {
                    (Some(property), Some(key)) => out.known.push(Known { property, key, text }),
                    _ => return Err(format!("{}:{}: malformed known: line", path.display(), n + 1)),
                }
            } else {
                return Err(format!("{}:{}: unrecognised line", path.display(), n + 1));
            }
        }
        Ok(out)
    }

    pub fn matches(&self, property: &str, key: &str) -> Option<&Known> {
        self.known
            .iter()
            .find(|k| k.property == property && k.key == key)
    }
}
