//! Engine `r1csim`: histories of operations on lazily evaluated R1CS variables
//! sharing one constraint system (C13, honest prover) and small circuits under
//! an adversarial prover who chooses every hint (C14).

pub mod exec;
pub mod gen;
pub mod model;
pub mod native;

use crate::common::{self, Opts};
use crate::io::gen::Corpus;
use exec::{run, ExecResult, Id, Judge, Outcome, Resolved, Viol};
use model::*;
use serde::{Deserialize, Serialize};
use serde_json::json;
use simcore::digest::hex;
use simcore::evidence::Coverage;
use simcore::prng::{run_seed, sub_seed, Rng};
use std::collections::{BTreeMap, BTreeSet};

#[derive(Serialize, Deserialize, Clone, Debug)]
pub struct Replay {
    pub engine: String,
    pub property: String,
    pub invariant: String,
    pub key: String,
    pub detail: String,
    pub seed: u64,
    pub origin: String,
    pub original_size: usize,
    pub circuit: Circuit,
}

fn judge_of(prop: &str) -> Judge {
    if prop == "C14" {
        Judge::C14
    } else {
        Judge::C13
    }
}

/// Random topological order of the data-dependency DAG, with random
/// duplication of pure forcing operations.
fn second_order(c: &Circuit, res: &[Resolved], seed: u64) -> Vec<usize> {
    let n = c.ops.len();
    let mut rng = Rng::new(seed);
    let ids: Vec<BTreeSet<Id>> = res
        .iter()
        .map(|r| r.ins.iter().chain(r.outs.iter()).copied().collect())
        .collect();
    let mut deps: Vec<Vec<usize>> = vec![vec![]; n];
    for j in 0..n {
        for i in 0..j {
            if !ids[i].is_disjoint(&ids[j]) {
                deps[j].push(i);
            }
        }
    }
    let mut done = vec![false; n];
    let mut order = Vec::new();
    for _ in 0..n {
        let ready: Vec<usize> = (0..n)
            .filter(|j| !done[*j] && deps[*j].iter().all(|i| done[*i]))
            .collect();
        let pick = ready[rng.usize_below(ready.len())];
        done[pick] = true;
        order.push(pick);
        if matches!(c.ops[pick], R1Op::Compress(_) | R1Op::Value(_) | R1Op::CsOf(_))
            && !res[pick].skipped
            && !res[pick].failed
            && rng.chance(1, 3)
        {
            order.push(pick); // executed twice in a row: the repeat must emit nothing
        }
    }
    order
}

/// Full judgement of one circuit, including the order-independence history check.
pub fn judge_circuit(c: &Circuit, judge: Judge, logging: bool) -> Outcome {
    let first: ExecResult = run(c, judge, logging, None, None);
    let mut out = first.out.clone();
    if judge == Judge::C13 && c.reorder_seed != 0 && out.viols.is_empty() && !first.wrecked {
        let order = second_order(c, &first.resolved, c.reorder_seed);
        let moved = order.iter().zip(0..).any(|(a, b)| *a != b);
        let second = run(c, judge, logging, Some(&order), Some(&first.resolved));
        out.steps += second.out.steps;
        for v in &second.out.viols {
            out.viols.push(v.clone());
        }
        for (k, v) in &second.out.probes {
            if k.starts_with("reforce") {
                *out.probes.entry(k).or_insert(0) += v;
            }
        }
        if second.out.viols.is_empty() && !first.wrecked && !second.wrecked {
            let mut bad: Option<String> = None;
            if first.totals != second.totals {
                bad = Some(format!(
                    "totals (constraints, witnesses, instances) differ: {:?} vs {:?}",
                    first.totals, second.totals
                ));
            } else if first.sat != second.sat {
                bad = Some(format!("satisfiability differs: {:?} vs {:?}", first.sat, second.sat));
            } else {
                // values per variable, matched by multiset (ids are renumbered in the second order)
                let mut a: Vec<Option<Vec<u8>>> = first.finals.values().cloned().collect();
                let mut b: Vec<Option<Vec<u8>>> = second.finals.values().cloned().collect();
                a.sort();
                b.sort();
                if a != b {
                    bad = Some("final values of the variables differ between the two orders".into());
                }
            }
            match bad {
                Some(d) => out.viols.push(Viol {
                    prop: "C13",
                    inv: "order_dependence",
                    key: "history".into(),
                    detail: d,
                }),
                None => {
                    *out
                        .probes
                        .entry(if moved {
                            "second_order_differs_and_agrees"
                        } else {
                            "second_order_identical"
                        })
                        .or_insert(0) += 1;
                }
            }
        }
        out.nontrivial = out.nontrivial || moved;
    }
    if judge == Judge::C13 {
        // a history is non-trivial if some lazy variable was actually forced
        let forced = out.probes.keys().any(|k| k.starts_with("var_forced") || *k == "value_was_first_forcing_operation");
        out.nontrivial = out.nontrivial || forced;
    }
    out
}

fn target<'a>(o: &'a Outcome, prop: &str, inv: Option<&str>) -> Option<&'a Viol> {
    o.viols
        .iter()
        .find(|v| v.prop == prop && inv.map(|i| i == v.inv).unwrap_or(true))
}

fn size_of(c: &Circuit) -> usize {
    c.ops.len()
        + c.hints.iter().filter(|h| !h.is_honest()).count()
        + c.enc_hints.iter().filter(|e| **e != EncSub::Honest).count()
        + c.digest_steps.len()
        + (c.reorder_seed != 0) as usize
}

pub fn minimise(c: &Circuit, prop: &str, inv: &str) -> Circuit {
    let judge = judge_of(prop);
    let fails = |x: &Circuit| target(&simcore::par::isolated(|| judge_circuit(x, judge, false)), prop, Some(inv)).is_some();
    let mut cur = c.clone();
    let mut budget = 600usize;
    loop {
        let before = size_of(&cur);
        macro_rules! try_edit {
            ($cand:expr) => {{
                if budget == 0 {
                    return cur;
                }
                budget -= 1;
                let cand: Circuit = $cand;
                if cand != cur && fails(&cand) {
                    cur = cand;
                }
            }};
        }
        let mut x = cur.clone();
        x.reorder_seed = 0;
        try_edit!(x);
        let mut x = cur.clone();
        x.digest_steps.clear();
        try_edit!(x);
        let mut i = cur.ops.len();
        while i > 0 {
            i -= 1;
            if i >= cur.ops.len() {
                continue;
            }
            let mut x = cur.clone();
            x.ops.remove(i);
            try_edit!(x);
        }
        for i in 0..cur.hints.len() {
            if !cur.hints[i].is_honest() {
                let mut x = cur.clone();
                x.hints[i] = HintSub::honest();
                try_edit!(x);
                let mut x = cur.clone();
                x.hints[i].flag = None;
                try_edit!(x);
            }
        }
        for i in 0..cur.enc_hints.len() {
            if cur.enc_hints[i] != EncSub::Honest {
                let mut x = cur.clone();
                x.enc_hints[i] = EncSub::Honest;
                try_edit!(x);
            }
        }
        // simpler operands
        for i in 0..cur.ops.len() {
            let mut x = cur.clone();
            match &mut x.ops[i] {
                R1Op::AllocElem { src, .. } | R1Op::AllocAffine { src, .. } | R1Op::ConstantVar { src } => {
                    *src = ESrc::Generator
                }
                R1Op::AddConst(_, s) | R1Op::SubConst(_, s) | R1Op::AddAssignConst(_, s) | R1Op::SubAssignConst(_, s) => {
                    *s = ESrc::Generator
                }
                R1Op::WitnessOffer { offer } | R1Op::WitnessOfferAffine { offer } | R1Op::AllocUnchecked { offer } => *offer = Offer::Honest(ESrc::Generator),
                _ => {}
            }
            try_edit!(x);
            let mut x = cur.clone();
            match &mut x.ops[i] {
                R1Op::AllocFq { mode, .. }
                | R1Op::AllocElem { mode, .. }
                | R1Op::AllocAffine { mode, .. }
                | R1Op::AllocFqVar { mode, .. }
                | R1Op::AllocBool { mode, .. } => *mode = Mode::Witness,
                _ => {}
            }
            try_edit!(x);
        }
        while cur.hints.last().map(|h| h.is_honest()).unwrap_or(false) {
            cur.hints.pop();
        }
        while cur.enc_hints.last().map(|e| *e == EncSub::Honest).unwrap_or(false) {
            cur.enc_hints.pop();
        }
        if size_of(&cur) >= before {
            break;
        }
    }
    cur
}

// ---------------------------------------------------------------------------
// C14 exhaustive tier: every single-gadget circuit x structured inputs x the
// complete substitution set at its one isqrt site.

fn le32(x: &num_bigint::BigUint) -> Hex {
    let mut v = x.to_bytes_le();
    v.resize(32, 0);
    hex(&v[..32])
}

pub fn c14_inputs(c: &Corpus) -> (Vec<Hex>, Vec<Hex>, Vec<ESrc>) {
    use num_bigint::BigUint;
    let f = simcore::field::fq();
    // encodings: valid and structured invalid
    let mut encs: Vec<Hex> = Vec::new();
    encs.push(le32(&BigUint::from(0u32)));
    for v in c.valid.iter().skip(1).take(10) {
        encs.push(hex(v));
    }
    for v in c.valid.iter().skip(24).take(6) {
        encs.push(hex(v));
    }
    encs.push(le32(&(&f.p - 1u32)));
    encs.push(le32(&BigUint::from(1u32)));
    encs.push(le32(&(&f.p - 2u32)));
    for v in c.valid.iter().skip(2).take(3) {
        encs.push(le32(&f.neg(&simcore::field::Fld::int_le(v))));
    }
    for v in c.nonsquare.iter().take(6) {
        encs.push(hex(v));
    }
    // field elements for isqrt / elligator
    let mut fqs: Vec<Hex> = Vec::new();
    for k in [0u32, 1, 2, 3, 4, 5, 7, 9, 16] {
        fqs.push(le32(&BigUint::from(k)));
    }
    fqs.push(le32(&(&f.p - 1u32)));
    fqs.push(le32(simcore::decaf::zeta()));
    fqs.push(le32(&f.inv(simcore::decaf::zeta())));
    fqs.push(le32(&f.sqr(simcore::decaf::zeta())));
    for v in c.valid.iter().skip(30).take(8) {
        fqs.push(hex(v));
    }
    for v in c.nonsquare.iter().skip(6).take(4) {
        fqs.push(hex(v));
    }
    // elements for encode / witness allocation
    let elems = vec![
        ESrc::Identity,
        ESrc::Torsion2,
        ESrc::Generator,
        ESrc::MulGen(2),
        ESrc::MulGen(7),
        ESrc::NegMulGen(le32(&BigUint::from(3u32))),
        ESrc::MulNegGen(le32(&BigUint::from(3u32))),
        ESrc::Decode(hex(&c.valid[40])),
        ESrc::Decode(hex(&c.valid[55])),
        ESrc::Elligator(le32(&BigUint::from(0u32))),
        ESrc::Elligator(le32(&BigUint::from(5u32))),
        ESrc::Mixed(le32(&BigUint::from(11u32)), 3),
    ];
    (encs, fqs, elems)
}

pub fn c14_cases(c: &Corpus, quick: bool) -> Vec<Circuit> {
    let (encs, fqs, elems) = c14_inputs(c);
    let mut out = Vec::new();
    let ys = gen::all_ychoices();
    let subs: Vec<HintSub> = {
        let mut v = vec![];
        for flag in [Some(true), Some(false)] {
            for y in &ys {
                v.push(HintSub {
                    flag,
                    y: y.clone(),
                });
            }
        }
        v
    };
    let mk = |ops: Vec<R1Op>, hints: Vec<HintSub>, enc_hints: Vec<EncSub>| Circuit {
        ops,
        hints,
        enc_hints,
        digest_steps: vec![],
        reorder_seed: 0,
        tamper_bits: false,
        tamper_free: false,
    };
    let _ = quick;
    // decode, directly and through a lazily evaluated variable
    for s in &encs {
        for sub in &subs {
            out.push(mk(
                vec![
                    R1Op::AllocFqVar {
                        mode: Mode::Witness,
                        v: s.clone(),
                    },
                    R1Op::Decompress(0),
                ],
                vec![sub.clone()],
                vec![],
            ));
            out.push(mk(
                vec![
                    R1Op::AllocFq {
                        mode: Mode::Input,
                        s: s.clone(),
                    },
                    R1Op::Value(0),
                ],
                vec![sub.clone()],
                vec![],
            ));
        }
    }
    // isqrt and Elligator
    for x in &fqs {
        for sub in &subs {
            out.push(mk(
                vec![
                    R1Op::AllocFqVar {
                        mode: Mode::Witness,
                        v: x.clone(),
                    },
                    R1Op::Isqrt(0),
                ],
                vec![sub.clone()],
                vec![],
            ));
            out.push(mk(
                vec![
                    R1Op::AllocFqVar {
                        mode: Mode::Witness,
                        v: x.clone(),
                    },
                    R1Op::Elligator(0),
                    R1Op::Compress(0),
                ],
                vec![sub.clone()],
                vec![],
            ));
        }
    }
    // encode of an honestly witnessed element: site 0 is the allocation's own decode, site 1 the encode
    for e in &elems {
        for sub in &subs {
            out.push(mk(
                vec![
                    R1Op::AllocElem {
                        mode: Mode::Witness,
                        src: e.clone(),
                    },
                    R1Op::Compress(0),
                ],
                vec![HintSub::honest(), sub.clone()],
                vec![],
            ));
        }
    }
    // witness allocation: coordinate offers x encoding hints x the site's substitution set
    let mut offers: Vec<Offer> = vec![Offer::T2, Offer::Zero00];
    for e in elems.iter().skip(2).take(3) {
        offers.push(Offer::Scaled(e.clone(), 2));
        offers.push(Offer::Scaled(e.clone(), 7));
    }
    offers.push(Offer::Raw {
        x: le32(&num_bigint::BigUint::from(3u32)),
        y: le32(&num_bigint::BigUint::from(5u32)),
    });
    for e in elems.iter().take(if quick { 6 } else { 12 }) {
        offers.push(Offer::Honest(e.clone()));
        offers.push(Offer::PlusT4(e.clone()));
        offers.push(Offer::SameRatioSibling(e.clone()));
        offers.push(Offer::OtherCoset(e.clone()));
    }
    let f = simcore::field::fq();
    let enc_subs: Vec<EncSub> = vec![
        EncSub::Honest,
        EncSub::EncodeOf(ESrc::MulGen(5)),
        EncSub::NegHonest,
        EncSub::Raw(le32(&(&f.p - 1u32))),
        EncSub::Raw(le32(&num_bigint::BigUint::from(0u32))),
        EncSub::Raw(le32(&num_bigint::BigUint::from(1u32))),
        EncSub::Raw(hex(&c.nonsquare[0])),
    ];
    for o in &offers {
        for es in &enc_subs {
            let partner = match o {
                Offer::SameRatioSibling(e) | Offer::PlusT4(e) | Offer::OtherCoset(e) | Offer::Scaled(e, _) => Some(EncSub::EncodeOf(e.clone())),
                _ => None,
            };
            let mut list = vec![es.clone()];
            if let (Some(p), EncSub::Honest) = (partner, es) {
                list.push(p);
            }
            for es in list {
                for sub in &subs {
                    // keep the quick tier bounded: full set for the honest flag values only on a subset
                    out.push(mk(
                        vec![R1Op::WitnessOffer { offer: o.clone() }],
                        vec![sub.clone()],
                        vec![es.clone()],
                    ));
                    // the other allocation entry point (AffinePoint) must judge the same offer the same way
                    out.push(mk(
                        vec![R1Op::WitnessOfferAffine { offer: o.clone() }],
                        vec![sub.clone()],
                        vec![es.clone()],
                    ));
                }
            }
        }
    }
    // witness allocation followed by compression of the result: the encoding that comes out must be the native one
    // whatever the prover witnessed as encoding
    for e in elems.iter() {
        for es in [EncSub::Honest, EncSub::NegHonest, EncSub::EncodeOf(ESrc::MulGen(5))] {
            out.push(mk(
                vec![R1Op::WitnessOffer { offer: Offer::Honest(e.clone()) }, R1Op::Compress(0)],
                vec![],
                vec![es.clone()],
            ));
            out.push(mk(
                vec![R1Op::WitnessOffer { offer: Offer::Honest(e.clone()) }, R1Op::IsZero(0)],
                vec![],
                vec![es],
            ));
        }
    }
    // identity held through its (0,-1) representative, reached by a sign flip of the root when decoding s = 0
    for sub in &subs {
        out.push(mk(
            vec![
                R1Op::AllocFqVar { mode: Mode::Witness, v: le32(&num_bigint::BigUint::from(0u32)) },
                R1Op::Decompress(0),
                R1Op::IsZero(0),
            ],
            vec![sub.clone()],
            vec![],
        ));
    }
    // equality gadget on operands that need not be elements (allocated through the unchecked public constructor)
    for e in elems.iter() {
        for o in [
            Offer::Honest(e.clone()),
            Offer::OtherCoset(e.clone()),
            Offer::PlusT4(e.clone()),
            Offer::SameRatioSibling(e.clone()),
            Offer::T2,
        ] {
            out.push(mk(
                vec![
                    R1Op::AllocElem {
                        mode: Mode::Witness,
                        src: e.clone(),
                    },
                    R1Op::AllocUnchecked { offer: o.clone() },
                    R1Op::IsEq(0, 1),
                ],
                vec![],
                vec![],
            ));
            out.push(mk(
                vec![
                    R1Op::AllocUnchecked { offer: o.clone() },
                    R1Op::AllocUnchecked {
                        offer: Offer::PlusT4(e.clone()),
                    },
                    R1Op::IsEq(1, 0),
                ],
                vec![],
                vec![],
            ));
        }
    }
    // thorough: decode followed by re-encode, every pair of substitutions at the two sites
    if !quick {
        for s in encs.iter().take(3).chain(encs.iter().skip(17).take(3)) {
            for s0 in &subs {
                for s1 in &subs {
                    out.push(mk(
                        vec![
                            R1Op::AllocFqVar {
                                mode: Mode::Witness,
                                v: s.clone(),
                            },
                            R1Op::Decompress(0),
                            R1Op::AddConst(0, ESrc::Generator),
                            R1Op::Compress(LAST),
                        ],
                        vec![s0.clone(), s1.clone()],
                        vec![],
                    ));
                }
            }
        }
    }
    // witness-tampering prover, free booleans: every hint substitution, then every boolean flip with repair
    {
        let tf = |ops: Vec<R1Op>, hints: Vec<HintSub>| Circuit {
            ops,
            hints,
            enc_hints: vec![],
            digest_steps: vec![],
            reorder_seed: 0,
            tamper_bits: false,
            tamper_free: true,
        };
        let some_encs: Vec<&Hex> = encs.iter().skip(1).take(2).chain(encs.iter().skip(17).take(if quick { 4 } else { 12 })).collect();
        for s in some_encs {
            for sub in std::iter::once(&HintSub::honest()).chain(subs.iter()) {
                out.push(tf(
                    vec![
                        R1Op::AllocFqVar {
                            mode: Mode::Witness,
                            v: s.clone(),
                        },
                        R1Op::Decompress(0),
                    ],
                    vec![sub.clone()],
                ));
            }
        }
        for x in fqs.iter().take(if quick { 6 } else { 25 }) {
            for sub in std::iter::once(&HintSub::honest()).chain(subs.iter()) {
                out.push(tf(
                    vec![
                        R1Op::AllocFqVar {
                            mode: Mode::Witness,
                            v: x.clone(),
                        },
                        R1Op::Isqrt(0),
                    ],
                    vec![sub.clone()],
                ));
            }
        }
    }
    // witness-tampering prover: honest hints, then every witnessed bit decomposition rewritten to v + q
    {
        use num_bigint::BigUint;
        let f = simcore::field::fq();
        let room = (BigUint::from(1u32) << 253) - &f.p; // values below this have v + q < 2^253
        let mut neg: Vec<Hex> = Vec::new();
        for v in c.valid.iter().skip(1) {
            let s = f.neg(&simcore::field::Fld::int_le(v)); // q - s: odd, i.e. negative
            if s < room {
                neg.push(le32(&s));
            }
            if neg.len() >= if quick { 4 } else { 12 } {
                break;
            }
        }
        neg.push(le32(&BigUint::from(1u32)));
        neg.push(le32(&BigUint::from(3u32)));
        let t = |ops: Vec<R1Op>| Circuit {
            ops,
            hints: vec![],
            enc_hints: vec![],
            digest_steps: vec![],
            reorder_seed: 0,
            tamper_bits: true,
        tamper_free: true,
        };
        for s in &neg {
            out.push(t(vec![
                R1Op::AllocFqVar { mode: Mode::Witness, v: s.clone() },
                R1Op::Decompress(0),
            ]));
            out.push(t(vec![R1Op::AllocFq { mode: Mode::Input, s: s.clone() }, R1Op::Value(0)]));
        }
        for x in [1u32, 2, 3, 4, 7, 8] {
            for g in 0..3 {
                out.push(t(vec![
                    R1Op::AllocFqVar { mode: Mode::Witness, v: le32(&BigUint::from(x)) },
                    match g {
                        0 => R1Op::IsNegative(0),
                        1 => R1Op::IsNonnegative(0),
                        _ => R1Op::Abs(0),
                    },
                ]));
            }
        }
        for v in c.valid.iter().skip(1).take(if quick { 2 } else { 6 }) {
            out.push(t(vec![R1Op::AllocFqVar { mode: Mode::Witness, v: hex(v) }, R1Op::Decompress(0)]));
        }
        for x in [0u32, 1, 5] {
            out.push(t(vec![
                R1Op::AllocFqVar { mode: Mode::Witness, v: le32(&BigUint::from(x)) },
                R1Op::Elligator(0),
            ]));
        }
    }
    out
}

pub const HANG_LIMIT: std::time::Duration = std::time::Duration::from_secs(180);

fn report_hang(prop: &str, opts: &Opts, origin: String, c: &Circuit) -> ! {
    let rp = Replay {
        engine: "r1csim".into(),
        property: prop.into(),
        invariant: "no_termination".into(),
        key: "no_termination".into(),
        detail: format!("synthesis did not terminate within {} s", HANG_LIMIT.as_secs()),
        seed: opts.seed,
        origin: origin.clone(),
        original_size: size_of(c),
        circuit: c.clone(),
    };
    let path = opts.replay_dir.join(format!("{}-{}-no_termination.json", prop, opts.seed));
    let _ = std::fs::create_dir_all(&opts.replay_dir);
    let _ = std::fs::write(&path, serde_json::to_string_pretty(&rp).unwrap());
    println!("violation found at {}: no_termination :: a gadget did not return within {} s", origin, HANG_LIMIT.as_secs());
    println!("VIOLATION property={} replay={}", prop, path.display());
    std::process::exit(simcore::EXIT_VIOLATION)
}

struct Acc {
    cov: Coverage,
    digests: BTreeSet<u64>,
    other: BTreeMap<String, u64>,
    known_seen: BTreeSet<String>,
    found: Option<(String, Circuit, Viol)>,
    nontrivial: u64,
    log_digest: simcore::digest::Fnv,
    constraints: u64,
    sat_runs: u64,
}

fn absorb(acc: &mut Acc, prop: &str, known: &simcore::known::KnownFindings, origin: String, c: &Circuit, o: Outcome) -> bool {
    acc.cov.evaluations += 1;
    acc.cov.sim_steps += o.steps;
    acc.constraints += o.constraints;
    if o.satisfied == Some(true) {
        acc.sat_runs += 1;
    }
    for (k, v) in &o.probes {
        acc.cov.bump_probe(k, *v);
    }
    for (k, v) in &o.faults {
        acc.cov.bump_fault(k, *v);
    }
    if o.nontrivial {
        acc.nontrivial += 1;
        acc.digests.insert(o.trace);
    } else {
        acc.cov.fault_free_runs += 1;
    }
    acc.log_digest.u64(o.trace);
    acc.log_digest.u64(o.steps);
    if acc.cov.samples.len() < 3 && o.nontrivial {
        acc.cov.samples.push(json!({"origin": origin, "circuit": c, "constraints": o.constraints, "satisfied": o.satisfied}));
    }
    for v in &o.viols {
        if v.prop != prop {
            *acc.other.entry(format!("{}:{}", v.prop, v.inv)).or_insert(0) += 1;
            continue;
        }
        if let Some(k) = known.matches(prop, &v.key) {
            acc.known_seen.insert(format!("key={} -- {}", k.key, k.text));
            continue;
        }
        if acc.found.is_none() {
            acc.found = Some((origin.clone(), c.clone(), v.clone()));
        }
        return false;
    }
    true
}

fn required_probes(prop: &str) -> &'static [&'static str] {
    match prop {
        "C13" => &[
            "var_forced_enc_then_elt",
            "var_forced_elt_then_enc",
            "reforce_emitted_nothing",
            "clone_taken_before_forcing",
            "clone_taken_after_forcing",
            "invalid_encoding_forced",
            "value_was_first_forcing_operation",
            "public_input_element_allocated",
            "matrix_prefix_unchanged_by_later_operations",
            "second_order_differs_and_agrees",
            "history_ended_unsatisfied_as_predicted",
            "history_ended_satisfied_as_predicted",
            "contradictory_enforcement_made_system_unsatisfied",
        ],
        "C14" => &[
            "hint_site_den_zero",
            "hint_site_inverse_is_nonsquare",
            "dishonest_plan_made_system_unsatisfied",
            "system_satisfied_under_a_dishonest_plan",
            "relation_checked_on_satisfied_system",
        ],
        _ => &[],
    }
}

pub fn run_check(prop: &str, opts: &Opts) -> i32 {
    let t0 = std::time::Instant::now();
    if let Err(e) = common::self_tests() {
        eprintln!("HARNESS-ERROR: self-test failed: {}", e);
        return simcore::EXIT_HARNESS;
    }
    let known = match simcore::known::KnownFindings::load(&opts.known_path) {
        Ok(k) => k,
        Err(e) => {
            eprintln!("HARNESS-ERROR: {}", e);
            return simcore::EXIT_HARNESS;
        }
    };
    let quick = opts.tier == "quick";
    let judge = judge_of(prop);
    println!("engine=r1csim property={} tier={} VERIF_SEED={}", prop, opts.tier, opts.seed);
    let cal = *exec::calib();
    println!(
        "calibration (re-measured from /repo): decode = {:?}, encode = {:?} (constraints, witnesses, instances)",
        cal.decode, cal.encode
    );
    let corpus = Corpus::build(0xC0FFEE);
    let workers = simcore::par::workers();
    let mut acc = Acc {
        cov: Coverage::default(),
        digests: BTreeSet::new(),
        other: BTreeMap::new(),
        known_seen: BTreeSet::new(),
        found: None,
        nontrivial: 0,
        log_digest: simcore::digest::Fnv::new(),
        constraints: 0,
        sat_runs: 0,
    };
    let cases: Vec<Circuit> = if prop == "C14" { c14_cases(&corpus, quick) } else { vec![] };
    let n_enum = cases.len() as u64;
    {
        let cr = &cases;
        let on_hang = |i: u64| report_hang(prop, opts, format!("enumeration#{}", i), &cr[i as usize]);
        simcore::par::run_batch_guarded(
            n_enum,
            workers,
            |i| simcore::par::isolated(|| judge_circuit(&cr[i as usize], judge, false)),
            &mut acc,
            |acc, i, o| absorb(acc, prop, &known, format!("enumeration#{}", i), &cr[i as usize], o),
            Some((HANG_LIMIT, &on_hang)),
        );
    }
    let enum_done = acc.found.is_none();
    let t_enum = t0.elapsed().as_secs_f64();
    let n_seeded = opts.runs.unwrap_or(match (prop, quick) {
        ("C13", true) => 6_000,
        ("C14", true) => 6_000,
        ("C13", false) => 300_000,
        (_, false) => 800_000,
        _ => 1000,
    });
    let batch_seed = sub_seed(opts.seed, &format!("r1csim/{}", prop));
    let deadline = opts.max_seconds.map(|s| t0 + std::time::Duration::from_secs_f64(s));
    let mut seeded_done = 0u64;
    if acc.found.is_none() {
        let slice = 4_000u64;
        let mut start = 0u64;
        while start < n_seeded && acc.found.is_none() {
            let n = slice.min(n_seeded - start);
            let cr = &corpus;
            let on_hang = |i: u64| {
                let mut rng = Rng::new(run_seed(batch_seed, start + i));
                let c = if prop == "C14" {
                    gen::adversarial(&mut rng, cr)
                } else {
                    gen::history(&mut rng, cr, !quick)
                };
                report_hang(prop, opts, format!("seeded#{}", start + i), &c)
            };
            simcore::par::run_batch_guarded(
                n,
                workers,
                |i| {
                    let mut rng = Rng::new(run_seed(batch_seed, start + i));
                    let c = if prop == "C14" {
                        gen::adversarial(&mut rng, cr)
                    } else {
                        gen::history(&mut rng, cr, !quick)
                    };
                    let o = simcore::par::isolated(|| judge_circuit(&c, judge, false));
                    (c, o)
                },
                &mut acc,
                |acc, i, (c, o)| absorb(acc, prop, &known, format!("seeded#{}", start + i), &c, o),
                Some((HANG_LIMIT, &on_hang)),
            );
            start += n;
            seeded_done = start;
            if let Some(d) = deadline {
                if std::time::Instant::now() > d {
                    break;
                }
            }
        }
    }
    if let Some(path) = &opts.dump_digest {
        let _ = std::fs::write(path, format!("{:016x}\n", acc.log_digest.finish()));
    }
    let mut exit = simcore::EXIT_OK;
    let mut violations = 0;
    if let Some((origin, c, v)) = acc.found.clone() {
        violations = 1;
        println!("violation found at {}: {} {} :: {}", origin, v.inv, v.key, v.detail);
        let min = minimise(&c, prop, v.inv);
        let o = simcore::par::isolated(|| judge_circuit(&min, judge, true));
        let mv = target(&o, prop, Some(v.inv)).cloned().unwrap_or(v.clone());
        let rp = Replay {
            engine: "r1csim".into(),
            property: prop.into(),
            invariant: mv.inv.into(),
            key: mv.key.clone(),
            detail: mv.detail.clone(),
            seed: opts.seed,
            origin,
            original_size: size_of(&c),
            circuit: min.clone(),
        };
        let path = opts.replay_dir.join(format!("{}-{}-{}.json", prop, opts.seed, mv.inv));
        let _ = std::fs::create_dir_all(&opts.replay_dir);
        if let Err(e) = std::fs::write(&path, serde_json::to_string_pretty(&rp).unwrap()) {
            eprintln!("HARNESS-ERROR: cannot write replay {}: {}", path.display(), e);
            return simcore::EXIT_HARNESS;
        }
        println!("minimised from size {} to size {}; minimised violation: {} {} :: {}", size_of(&c), size_of(&min), mv.inv, mv.key, mv.detail);
        for l in &o.log {
            println!("  {}", l);
        }
        match common::replay_in_child("r1cs", &path) {
            Ok(true) => {
                println!("VIOLATION property={} replay={}", prop, path.display());
                exit = simcore::EXIT_VIOLATION;
            }
            Ok(false) => {
                eprintln!("HARNESS-ERROR: replay of {} did not reproduce in a fresh process", path.display());
                return simcore::EXIT_HARNESS;
            }
            Err(e) => {
                eprintln!("HARNESS-ERROR: {}", e);
                return simcore::EXIT_HARNESS;
            }
        }
    }
    for k in &acc.known_seen {
        println!("KNOWN-FINDING: property={} {}", prop, k);
    }
    let mut missing = Vec::new();
    if exit == simcore::EXIT_OK && opts.runs.is_none() && opts.max_seconds.is_none() {
        for p in required_probes(prop) {
            if acc.cov.probes.get(*p).copied().unwrap_or(0) == 0 {
                missing.push(*p);
            }
        }
    }
    let wall = t0.elapsed().as_secs_f64();
    let mut cov = acc.cov.clone();
    cov.distinct_nontrivial = acc.digests.len() as u64;
    cov.rule = if prop == "C14" {
        format!(
            "tier 1: complete enumeration ({} circuits): every single-gadget circuit (decode directly and through a lazy variable, isqrt, Elligator, encode, witness allocation) x structured inputs x the full substitution set (flag in {{true,false}} x y in {{0, 1, -1, +-sqrt(1/den), +-sqrt(zeta/den), honest, -honest, zeta*honest, arbitrary}}) at its hint site, and for witness allocation x coordinate offers x encoding hints; \
             tier 2: {} seeded circuits of 1-6 gadget operations with multi-site hint plans. Non-trivial = at least one hint was substituted or invalid coordinates were offered; distinct = distinct FNV-1a digests of the operation-name trace plus violation classes.",
            n_enum, seeded_done
        )
    } else {
        format!(
            "{} seeded histories of 5-35 operations on a pool of lazily evaluated element variables, field variables and booleans sharing one constraint system (allocation in all three modes from field elements, elements and affine points; forcing by compress/value/cs/to_bits/to_bytes/clone; computing by every operator form, negate, double, select, scalar_mul_le, equality and (conditional) enforcement, decompress, Elligator, isqrt, abs, sign), each judged step by step against the sequential memo model and then replayed in a second seeded topological order with duplicated forcing operations. \
             Non-trivial = at least one lazy variable was forced or the second order differed from the first; distinct = distinct FNV-1a digests of the operation-name trace.",
            seeded_done
        )
    };
    cov.exhaustive = Some(false);
    cov.components_real = vec![
        "decaf377::r1cs (ElementVar, LazyElementVar, inner ElementVar, FqVarExtension) from /repo working tree, built with --cfg decaf377_verif".into(),
        "ark-r1cs-std gadgets, ark-relations ConstraintSystem (is_satisfied, to_matrices)".into(),
        "native decaf377 code as the value oracle (decode, encode, Elligator, sqrt_ratio_zeta, group law)".into(),
    ];
    cov.components_stub = vec![
        "the prover: hint values at every isqrt site, the witnessed encoding and the witnessed coordinates are chosen by the harness through the decaf377_verif hooks".into(),
    ];
    cov.extra.insert("enumeration_cases".into(), json!(n_enum));
    cov.extra.insert("enumeration_complete".into(), json!(enum_done));
    cov.extra.insert("enumeration_wall_s".into(), json!(t_enum));
    cov.extra.insert("seeded_runs".into(), json!(seeded_done));
    cov.extra.insert("nontrivial_runs".into(), json!(acc.nontrivial));
    cov.extra.insert("constraints_synthesised".into(), json!(acc.constraints));
    cov.extra.insert("runs_ending_satisfied".into(), json!(acc.sat_runs));
    cov.extra.insert("calibrated_decode_cost".into(), json!([cal.decode.0, cal.decode.1, cal.decode.2]));
    cov.extra.insert("calibrated_encode_cost".into(), json!([cal.encode.0, cal.encode.1, cal.encode.2]));
    cov.extra.insert("other_property_violations_ignored_by_this_check".into(), json!(acc.other));
    cov.extra.insert("event_log_digest".into(), json!(format!("{:016x}", acc.log_digest.finish())));
    cov.extra.insert("simulated_time_note".into(), json!("no clock in the crate; simulated time is the logical step counter sim_steps (one step = one history operation, hint site or relation check)"));
    cov.extra.insert("missing_probes".into(), json!(missing));
    cov.extra.insert("workers".into(), json!(workers));
    if cov.samples.is_empty() {
        if let Some(c) = cases.first() {
            cov.samples.push(json!({"origin": "enumeration#0", "circuit": c}));
        }
    }
    let level = if prop == "C14" { "fault_enumeration" } else { "exploration" };
    let ev = simcore::evidence::Evidence {
        property_id: prop,
        tier: &opts.tier,
        seed: opts.seed,
        level,
        coverage: &cov,
        assumptions: vec![
            "arkworks gadgets outside this repository (FpVar, Boolean, AffineVar arithmetic) are sound and complete".into(),
            "ConstraintSystem::is_satisfied evaluates the emitted constraints faithfully".into(),
            "the native decaf377 functions are the value oracle for gadget outputs; validity of elements is judged by the independent reference model".into(),
        ],
        wall_s: wall,
        violations,
        known_findings_seen: acc.known_seen.iter().cloned().collect(),
    };
    if let Err(e) = simcore::evidence::write(&opts.evidence_path(prop), &ev) {
        eprintln!("HARNESS-ERROR: cannot write evidence: {}", e);
        return simcore::EXIT_HARNESS;
    }
    println!(
        "runs={} (enumeration {} + seeded {}) nontrivial={} distinct_traces={} constraints={} wall={:.1}s other_property_violations={:?}",
        cov.evaluations, n_enum, seeded_done, acc.nontrivial, cov.distinct_nontrivial, acc.constraints, wall, acc.other
    );
    if !missing.is_empty() {
        eprintln!("HARNESS-ERROR: reach probes stuck at zero: {:?}", missing);
        return simcore::EXIT_HARNESS;
    }
    exit
}

pub fn replay(path: &std::path::Path, quiet: bool) -> i32 {
    let text = match std::fs::read_to_string(path) {
        Ok(t) => t,
        Err(e) => {
            eprintln!("HARNESS-ERROR: {}: {}", path.display(), e);
            return simcore::EXIT_HARNESS;
        }
    };
    let rp: Replay = match serde_json::from_str(&text) {
        Ok(r) => r,
        Err(e) => {
            eprintln!("HARNESS-ERROR: {}: {}", path.display(), e);
            return simcore::EXIT_HARNESS;
        }
    };
    if let Err(e) = common::self_tests() {
        eprintln!("HARNESS-ERROR: self-test failed: {}", e);
        return simcore::EXIT_HARNESS;
    }
    let o = judge_circuit(&rp.circuit, judge_of(&rp.property), true);
    if !quiet {
        for l in &o.log {
            println!("  {}", l);
        }
    }
    match target(&o, &rp.property, Some(&rp.invariant)) {
        Some(v) => {
            println!("reproduced: {} {} :: {}", v.inv, v.key, v.detail);
            println!("VIOLATION property={} replay={}", rp.property, path.display());
            simcore::EXIT_VIOLATION
        }
        None => {
            println!("replay of {}: invariant {} holds on this tree", path.display(), rp.invariant);
            simcore::EXIT_OK
        }
    }
}
