// (included into exec.rs) One operation of a history.

struct Args<'a> {
    pre: Option<&'a Resolved>,
    remap: &'a BTreeMap<Id, Id>,
    cursor: usize,
    ins: Vec<Id>,
}

impl<'a> Args<'a> {
    fn next_pre(&mut self) -> Option<Id> {
        let p = self.pre?;
        let id = *p.ins.get(self.cursor)?;
        self.cursor += 1;
        self.remap.get(&id).copied()
    }
    fn e(&mut self, w: &World, i: usize) -> Option<usize> {
        let r = if self.pre.is_some() {
            match self.next_pre() {
                Some(Id::E(k)) if w.es.contains_key(&k) => Some(k),
                _ => None,
            }
        } else {
            w.pick_e(i)
        };
        if let Some(k) = r {
            self.ins.push(Id::E(k));
        }
        r
    }
    fn f(&mut self, w: &World, i: usize) -> Option<usize> {
        let r = if self.pre.is_some() {
            match self.next_pre() {
                Some(Id::F(k)) if w.fs.contains_key(&k) => Some(k),
                _ => None,
            }
        } else {
            w.pick_f(i)
        };
        if let Some(k) = r {
            self.ins.push(Id::F(k));
        }
        r
    }
    fn b(&mut self, w: &World, i: usize) -> Option<usize> {
        let r = if self.pre.is_some() {
            match self.next_pre() {
                Some(Id::B(k)) if w.bs.contains_key(&k) => Some(k),
                _ => None,
            }
        } else {
            w.pick_b(i)
        };
        if let Some(k) = r {
            self.ins.push(Id::B(k));
        }
        r
    }
}

fn is_neg(x: &Fq) -> bool {
    x.to_bytes_le()[0] & 1 == 1
}

/// Runs gadget code; a panic is a violation when the model calls the operation defined.
fn guard<T>(w: &mut World, name: &'static str, defined: bool, f: impl FnOnce() -> T) -> Option<T> {
    match catch_unwind(AssertUnwindSafe(f)) {
        Ok(v) => Some(v),
        Err(p) => {
            let msg = panic_msg(p);
            if defined {
                match w.judge {
                    Judge::C13 => w.viol("C13", "panic", format!("op={}", name), msg),
                    Judge::C14 => w.viol("C14", "panic_in_synthesis", format!("op={}", name), msg),
                }
            } else {
                w.probe("undefined_operation_panicked_or_failed");
                w.wrecked = true;
            }
            None
        }
    }
}

fn check_cost(w: &mut World, name: &'static str, what: &'static str, before: Cost, predicted: Option<Cost>) {
    if w.judge != Judge::C13 {
        return;
    }
    if let Some(p) = predicted {
        let got = cost_diff(before, cost_now(&w.cs));
        if got != p {
            w.viol(
                "C13",
                "memo_cost",
                format!("op={} state={}", name, what),
                format!(
                    "emitted (constraints, witnesses, instances) = {:?}, the memo model predicts {:?}",
                    got, p
                ),
            );
        } else if p == (0, 0, 0) {
            w.probe("reforce_emitted_nothing");
        }
    }
}

fn memo_name(m: Memo) -> &'static str {
    match m {
        Memo::Enc => "Enc",
        Memo::Elt => "Elt",
        Memo::Both => "Both",
    }
}

fn check_fq(w: &mut World, name: &'static str, var: &FqVar, want: Option<Fq>) {
    if w.judge != Judge::C13 {
        return;
    }
    if let Some(want) = want {
        match var.value() {
            Ok(v) if v == want => {}
            Ok(v) => w.viol(
                "C13",
                "value",
                format!("op={}", name),
                format!("gadget value {} != native {}", hex(&v.to_bytes_le()), hex(&want.to_bytes_le())),
            ),
            Err(e) => w.viol("C13", "value", format!("op={}", name), format!("value() failed: {:?}", e)),
        }
    }
}

fn check_bool(w: &mut World, name: &'static str, var: &Boolean<Fq>, want: Option<bool>) {
    if w.judge != Judge::C13 {
        return;
    }
    if let Some(want) = want {
        match var.value() {
            Ok(v) if v == want => {}
            Ok(v) => w.viol("C13", "value", format!("op={}", name), format!("gadget bool {} != native {}", v, want)),
            Err(e) => w.viol("C13", "value", format!("op={}", name), format!("value() failed: {:?}", e)),
        }
    }
}

/// Pushes a derived element variable; in C13 mode its value is compared with
/// the native result through a clone (so the pool variable stays unforced).
fn push_derived(
    w: &mut World,
    name: &'static str,
    var: ElementVar,
    elem: Option<Element>,
    cst: bool,
    poisoned: bool,
    memo: Memo,
    enc: Option<Fq>,
) -> Id {
    if w.judge == Judge::C13 && !poisoned && memo != Memo::Enc {
        if let Some(want) = elem {
            let probe = var.clone();
            let before = cost_now(&w.cs);
            match guard(w, name, true, move || probe.value()) {
                Some(Ok(v)) => {
                    if v != want || v.vartime_compress() != want.vartime_compress() {
                        w.viol(
                            "C13",
                            "value",
                            format!("op={}", name),
                            format!(
                                "gadget element {} != native {}",
                                hex(&v.vartime_compress().0),
                                hex(&want.vartime_compress().0)
                            ),
                        );
                    }
                }
                Some(Err(e)) => w.viol("C13", "value", format!("op={}", name), format!("value() failed: {:?}", e)),
                None => {}
            }
            // reading the value of an element-state variable emits nothing
            check_cost(w, name, "value_of_fresh_result", before, Some((0, 0, 0)));
        }
    }
    w.push_e(EV {
        var,
        elem,
        enc,
        memo,
        cst,
        poisoned,
    })
}

fn step(w: &mut World, op: &R1Op, pre: Option<&Resolved>, remap: &BTreeMap<Id, Id>, dup: bool) -> Resolved {
    let name = op_name(op);
    w.trace.str(name);
    let mut a = Args {
        pre,
        remap,
        cursor: 0,
        ins: vec![],
    };
    let mut outs: Vec<Id> = Vec::new();
    let mut failed = false;
    let mut skipped = false;
    let cs = w.cs.clone();
    let before = cost_now(&cs);
    let sites_before = decaf377::verif::isqrt_sites();
    macro_rules! need {
        ($x:expr) => {
            match $x {
                Some(v) => v,
                None => {
                    return Resolved {
                        ins: a.ins,
                        outs,
                        skipped: true,
                        failed: false,
                    }
                }
            }
        };
    }
    match op {
        R1Op::AllocFq { mode, s } => {
            let s = fq_hex(s);
            let cst = *mode == Mode::Constant;
            let r = guard(w, name, true, || {
                <ElementVar as AllocVar<Fq, Fq>>::new_variable(cs.clone(), || Ok(s), amode(*mode))
            });
            match r {
                Some(Ok(var)) => {
                    let pred = match mode {
                        Mode::Constant => (0, 0, 0),
                        Mode::Input => (0, 0, 1),
                        Mode::Witness => (0, 1, 0),
                    };
                    check_cost(w, name, "alloc", before, Some(pred));
                    let elem = native_decode(&s);
                    if elem.is_none() {
                        w.probe("invalid_encoding_allocated");
                    }
                    if *mode == Mode::Input {
                        w.probe("public_input_allocated_from_field");
                    }
                    outs.push(w.push_e(EV {
                        var,
                        elem,
                        enc: Some(s),
                        memo: Memo::Enc,
                        cst,
                        poisoned: false,
                    }));
                }
                Some(Err(e)) => {
                    failed = true;
                    if w.judge == Judge::C13 {
                        w.viol("C13", "alloc_failed", format!("op={} mode={:?}", name, mode), format!("{:?}", e));
                    }
                }
                None => failed = true,
            }
        }
        R1Op::AllocElem { mode, src } | R1Op::AllocAffine { mode, src } => {
            let p = esrc(src);
            let cst = *mode == Mode::Constant;
            let affine = matches!(op, R1Op::AllocAffine { .. });
            let r = guard(w, name, true, || {
                if affine {
                    let ap: AffinePoint = p.into_affine();
                    <ElementVar as AllocVar<AffinePoint, Fq>>::new_variable(cs.clone(), || Ok(ap), amode(*mode))
                } else {
                    <ElementVar as AllocVar<Element, Fq>>::new_variable(cs.clone(), || Ok(p), amode(*mode))
                }
            });
            match r {
                Some(Ok(var)) => {
                    let (memo, enc) = match mode {
                        Mode::Input => (Memo::Enc, Some(p.vartime_compress_to_field())),
                        _ => (Memo::Elt, None),
                    };
                    match mode {
                        Mode::Input => {
                            check_cost(w, name, "alloc_input", before, Some((0, 0, 1)));
                            w.probe("public_input_element_allocated");
                            // what a verifier will feed in for this public input is ToConstraintField of the
                            // native element: the instance variable just allocated must hold exactly that
                            // (its reference value is the specification encoding of the element)
                            let assigned = w.cs.borrow().and_then(|c| c.instance_assignment.last().copied());
                            let native = ark_ff::ToConstraintField::<Fq>::to_field_elements(&p);
                            let spec = bridge::elem_to_pt(&p)
                                .and_then(|pt| rd::encode_s(&pt))
                                .map(|x| bridge::big_to_fq(&x));
                            match (assigned, native.as_deref(), spec) {
                                (Some(a), Some([n]), Some(sp)) if a == *n && a == sp => {
                                    w.probe("public_input_matches_to_field_elements");
                                }
                                (a, n, sp) => w.viol(
                                    "C13",
                                    "public_input",
                                    format!("op={}", name),
                                    format!(
                                        "instance variable {:?}, ToConstraintField {:?}, specification encoding {:?}",
                                        a.map(|x| hex(&x.to_bytes_le())),
                                        n.map(|v| v.iter().map(|x| hex(&x.to_bytes_le())).collect::<Vec<_>>()),
                                        sp.map(|x| hex(&x.to_bytes_le()))
                                    ),
                                ),
                            }
                        }
                        Mode::Constant => check_cost(w, name, "alloc_constant", before, Some((0, 0, 0))),
                        Mode::Witness => {}
                    }
                    let id = if *mode == Mode::Witness {
                        let pt = bridge::elem_to_pt(&p).unwrap_or_else(rd::identity);
                        let id = push_derived(w, name, var, Some(p), cst, false, memo, enc);
                        let enc_site = decaf377::verif::encoding_sites().saturating_sub(1);
                        w.rels.push(Rel::Witness {
                            offered: (pt.x, pt.y),
                            offered_valid: true,
                            out: id,
                            enc_site,
                            site_from: sites_before,
                        });
                        id
                    } else {
                        push_derived(w, name, var, Some(p), cst, false, memo, enc)
                    };
                    outs.push(id);
                }
                Some(Err(e)) => {
                    failed = true;
                    if w.judge == Judge::C13 {
                        w.viol("C13", "alloc_failed", format!("op={} mode={:?}", name, mode), format!("{:?}", e));
                    }
                }
                None => failed = true,
            }
        }
        R1Op::WitnessOffer { offer } | R1Op::WitnessOfferAffine { offer } => {
            let via_affine = matches!(op, R1Op::WitnessOfferAffine { .. });
            if via_affine {
                w.probe("coordinates_offered_through_affine_entry_point");
            }
            let (x, y) = offer_coords(offer);
            let valid = offer_is_valid(offer);
            if !valid {
                w.fault("offgroup_or_offcurve_coordinates_offered");
            } else if !matches!(offer, Offer::Honest(_)) {
                w.fault("alternative_valid_representative_offered");
            }
            let p = Element::verif_from_affine_unchecked(bridge::big_to_fq(&x), bridge::big_to_fq(&y));
            let r = guard(w, name, true, || {
                if via_affine {
                    let ap: AffinePoint = p.into_affine();
                    <ElementVar as AllocVar<AffinePoint, Fq>>::new_variable(cs.clone(), || Ok(ap), AllocationMode::Witness)
                } else {
                    <ElementVar as AllocVar<Element, Fq>>::new_variable(cs.clone(), || Ok(p), AllocationMode::Witness)
                }
            });
            match r {
                Some(Ok(var)) => {
                    let elem = if valid { Some(p) } else { None };
                    let id = push_derived(w, name, var, elem, false, !valid, Memo::Elt, None);
                    let enc_site = decaf377::verif::encoding_sites().saturating_sub(1);
                    w.rels.push(Rel::Witness {
                        offered: (x, y),
                        offered_valid: valid,
                        out: id,
                        enc_site,
                        site_from: sites_before,
                    });
                    outs.push(id);
                }
                Some(Err(_)) | None => failed = true,
            }
        }
        R1Op::AllocUnchecked { offer } => {
            let (x, y) = offer_coords(offer);
            let valid = offer_is_valid(offer);
            let p = Element::verif_from_affine_unchecked(bridge::big_to_fq(&x), bridge::big_to_fq(&y));
            let r = guard(w, name, true, || {
                <ElementVar as CurveVar<Element, Fq>>::new_variable_omit_prime_order_check(
                    cs.clone(),
                    || Ok(p),
                    AllocationMode::Witness,
                )
            });
            match r {
                Some(Ok(var)) => {
                    // no validity is claimed for this variable; it only serves as an operand
                    outs.push(w.push_e(EV {
                        var,
                        elem: if valid { Some(p) } else { None },
                        enc: None,
                        memo: Memo::Elt,
                        cst: false,
                        poisoned: !valid,
                    }));
                }
                Some(Err(_)) | None => failed = true,
            }
        }
        R1Op::ZeroVar => {
            let var = <ElementVar as CurveVar<Element, Fq>>::zero();
            check_cost(w, name, "constant", before, Some((0, 0, 0)));
            outs.push(push_derived(w, name, var, Some(Element::IDENTITY), true, false, Memo::Elt, None));
        }
        R1Op::ConstantVar { src } => {
            let p = esrc(src);
            let var = <ElementVar as CurveVar<Element, Fq>>::constant(p);
            check_cost(w, name, "constant", before, Some((0, 0, 0)));
            outs.push(push_derived(w, name, var, Some(p), true, false, Memo::Elt, None));
        }
        R1Op::AllocFqVar { mode, v } => {
            let v = fq_hex(v);
            match FqVar::new_variable(cs.clone(), || Ok(v), amode(*mode)) {
                Ok(var) => outs.push(w.push_f(FV {
                    var,
                    val: Some(v),
                    cst: *mode == Mode::Constant,
                })),
                Err(_) => failed = true,
            }
        }
        R1Op::AllocBool { mode, v } => match Boolean::new_variable(cs.clone(), || Ok(*v), amode(*mode)) {
            Ok(var) => outs.push(w.push_b(BV {
                var,
                val: Some(*v),
                cst: *mode == Mode::Constant,
            })),
            Err(_) => failed = true,
        },
        R1Op::Compress(i) => {
            let id = need!(a.e(w, *i));
            let was = w.es[&id].memo;
            let cst = w.es[&id].cst;
            let defined = was != Memo::Elt || w.es[&id].elem.is_some() || !cst;
            let pred = w.force_encoding(id);
            let ev = w.es.remove(&id).unwrap();
            let r = guard(w, name, defined, || ev.var.compress_to_field());
            let want = ev.enc;
            w.es.insert(id, ev);
            match r {
                Some(Ok(fq)) => {
                    check_cost(w, name, memo_name(was), before, pred);
                    check_fq(w, name, &fq, want);
                    if !dup {
                        let out = w.push_f(FV {
                            var: fq,
                            val: want,
                            cst,
                        });
                        if was == Memo::Elt && !cst {
                            w.rels.push(Rel::Encode { inp: Id::E(id), out });
                        }
                        outs.push(out);
                    }
                }
                Some(Err(e)) => {
                    failed = true;
                    if defined && w.judge == Judge::C13 {
                        w.viol(
                            "C13",
                            "gadget_failed",
                            format!("op={} cst={} state={}", name, cst, memo_name(was)),
                            format!("{:?}", e),
                        );
                    }
                }
                None => failed = true,
            }
        }
        _ => {
            return step2(w, op, a, before, dup);
        }
    }
    let _ = &mut skipped;
    Resolved {
        ins: a.ins,
        outs,
        skipped,
        failed,
    }
}

