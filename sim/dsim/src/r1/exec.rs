//! Executes one circuit-building history against the real gadgets, with the
//! harness playing the prover at every hint site, and judges it:
//!  * honest prover (C13): step by step against the sequential model
//!    (values, memoisation, append-only, satisfiability), then the
//!    order-independence history check;
//!  * adversarial prover (C14): if the final system is satisfied, every gadget
//!    application must be in the native relation.

use super::model::*;
use super::native::*;
use crate::bridge;
use ark_ec::CurveGroup;
use ark_ff::{Field, Zero};
use ark_r1cs_std::alloc::{AllocVar, AllocationMode};
use ark_r1cs_std::boolean::Boolean;
use ark_r1cs_std::eq::EqGadget;
use ark_r1cs_std::groups::CurveVar;
use ark_r1cs_std::select::CondSelectGadget;
use ark_r1cs_std::{R1CSVar, ToBitsGadget, ToBytesGadget};
use ark_relations::r1cs::{ConstraintSystem, ConstraintSystemRef};
use decaf377::r1cs::fqvar_ext::FqVarExtension;
use decaf377::r1cs::{ElementVar, FqVar};
use decaf377::{Element, Encoding, Fq};
use num_bigint::BigUint;
use simcore::decaf as rd;
use simcore::digest::{hex, Fnv};
use simcore::prng::Rng;
use std::collections::BTreeMap;
use std::panic::{catch_unwind, AssertUnwindSafe};
use std::sync::OnceLock;

type AffinePoint = bridge::AffinePoint;

#[derive(Clone, Debug)]
pub struct Viol {
    pub prop: &'static str,
    pub inv: &'static str,
    pub key: String,
    pub detail: String,
}

#[derive(Clone, Debug, Default)]
pub struct Outcome {
    pub viols: Vec<Viol>,
    pub probes: BTreeMap<&'static str, u64>,
    pub faults: BTreeMap<&'static str, u64>,
    pub steps: u64,
    pub trace: u64,
    pub nontrivial: bool,
    pub log: Vec<String>,
    pub constraints: u64,
    pub satisfied: Option<bool>,
}

#[derive(Clone, Copy, Debug, PartialEq, Eq)]
pub enum Judge {
    /// honest prover, model-based step checks + history check
    C13,
    /// adversarial prover, relation checks on satisfied systems
    C14,
}

type Cost = (usize, usize, usize);

/// One isqrt hint site as it happened: (den, flag used, y used, was it substituted, index of the
/// `was_square` witness that is allocated right after the hint is taken).
type Site = (Fq, bool, Fq, bool, usize);

#[derive(Clone, Copy, Debug)]
pub struct Calib {
    pub decode: Cost,
    pub encode: Cost,
}

fn cost_now(cs: &ConstraintSystemRef<Fq>) -> Cost {
    (
        cs.num_constraints(),
        cs.num_witness_variables(),
        cs.num_instance_variables(),
    )
}
fn cost_diff(a: Cost, b: Cost) -> Cost {
    (b.0 - a.0, b.1 - a.1, b.2 - a.2)
}

/// Re-measured from /repo in every process, never hard-coded.
pub fn calib() -> &'static Calib {
    static C: OnceLock<Calib> = OnceLock::new();
    C.get_or_init(|| {
        // honest prover for the calibration, whatever the caller has installed
        decaf377::verif::set_isqrt_hook(None);
        decaf377::verif::set_encoding_hook(None);
        let cs = ConstraintSystem::<Fq>::new_ref();
        let s = Element::GENERATOR.vartime_compress_to_field();
        let v = <ElementVar as AllocVar<Fq, Fq>>::new_witness(cs.clone(), || Ok(s)).unwrap();
        let a = cost_now(&cs);
        let _ = v.value();
        let b = cost_now(&cs);
        let w = <ElementVar as AllocVar<Element, Fq>>::new_witness(cs.clone(), || {
            Ok(Element::GENERATOR + Element::GENERATOR)
        })
        .unwrap();
        let c = cost_now(&cs);
        let _ = w.compress_to_field();
        let d = cost_now(&cs);
        Calib {
            decode: cost_diff(a, b),
            encode: cost_diff(c, d),
        }
    })
}

#[derive(Clone, Copy, Debug, PartialEq, Eq)]
enum Memo {
    Enc,
    Elt,
    Both,
}

#[derive(Clone)]
struct EV {
    var: ElementVar,
    /// native element; None = the encoding is invalid / value undefined
    elem: Option<Element>,
    /// the field element this variable was allocated from / compresses to
    enc: Option<Fq>,
    memo: Memo,
    cst: bool,
    poisoned: bool,
}
#[derive(Clone)]
struct FV {
    var: FqVar,
    val: Option<Fq>,
    cst: bool,
}
#[derive(Clone)]
struct BV {
    var: Boolean<Fq>,
    val: Option<bool>,
    cst: bool,
}

#[derive(Clone, Copy, Debug, PartialEq, Eq, PartialOrd, Ord)]
pub enum Id {
    E(usize),
    F(usize),
    B(usize),
}

/// One gadget application, recorded for the C14 relation check.
enum Rel {
    Decode { s: Fq, out: Id, via: &'static str, site_from: usize },
    Encode { inp: Id, out: Id },
    Elligator { inp: Id, out: Id },
    Isqrt { inp: Id, flag: Id, y: Id, site_from: usize },
    Witness { offered: (BigUint, BigUint), offered_valid: bool, out: Id, enc_site: usize, site_from: usize },
    Sign { inp: Id, out: Id, what: &'static str },
    Abs { inp: Id, out: Id },
    IsEq { a: Id, b: Id, out: Id },
    IsZero { a: Id, out: Id },
}

/// What the first execution recorded for each op: which variables it used and produced.
#[derive(Clone, Debug, Default)]
pub struct Resolved {
    pub ins: Vec<Id>,
    pub outs: Vec<Id>,
    pub skipped: bool,
    pub failed: bool,
}

struct World {
    cs: ConstraintSystemRef<Fq>,
    judge: Judge,
    es: BTreeMap<usize, EV>,
    fs: BTreeMap<usize, FV>,
    bs: BTreeMap<usize, BV>,
    next: usize,
    sat: bool,
    rels: Vec<Rel>,
    out: Outcome,
    trace: Fnv,
    logging: bool,
    prefix_digests: Vec<(usize, u64)>,
    force_orders: BTreeMap<usize, Vec<u8>>,
    /// an arkworks gadget failed half-way on garbage operands: the constraint
    /// system's bookkeeping is off (a witness without assignment), nothing more is judged
    wrecked: bool,
    /// set while the witness-tampering prover is active; appended to violation keys
    tamper_tag: Option<&'static str>,
}

fn panic_msg(e: Box<dyn std::any::Any + Send>) -> String {
    if let Some(s) = e.downcast_ref::<&str>() {
        return s.to_string();
    }
    if let Some(s) = e.downcast_ref::<String>() {
        return s.clone();
    }
    "panic".into()
}

fn amode(m: Mode) -> AllocationMode {
    match m {
        Mode::Constant => AllocationMode::Constant,
        Mode::Input => AllocationMode::Input,
        Mode::Witness => AllocationMode::Witness,
    }
}

fn native_decode(s: &Fq) -> Option<Element> {
    let mut b = [0u8; 32];
    b.copy_from_slice(&s.to_bytes_le());
    Encoding(b).vartime_decompress().ok()
}

impl World {
    fn probe(&mut self, k: &'static str) {
        *self.out.probes.entry(k).or_insert(0) += 1;
    }
    fn fault(&mut self, k: &'static str) {
        *self.out.faults.entry(k).or_insert(0) += 1;
        self.out.nontrivial = true;
    }
    fn viol(&mut self, prop: &'static str, inv: &'static str, key: String, detail: String) {
        let key = match self.tamper_tag {
            Some(t) => format!("{};witness_tamper={}", key, t),
            None => key,
        };
        self.trace.str("VIOL");
        self.trace.str(inv);
        if self.logging {
            self.out
                .log
                .push(format!("VIOLATION {} {} {} :: {}", prop, inv, key, detail));
        }
        self.out.viols.push(Viol {
            prop,
            inv,
            key,
            detail,
        });
    }
    fn log(&mut self, f: impl FnOnce() -> String) {
        if self.logging {
            let s = f();
            self.out.log.push(s);
        }
    }
    fn new_id(&mut self) -> usize {
        let n = self.next;
        self.next += 1;
        n
    }
    fn pick_e(&self, i: usize) -> Option<usize> {
        let n = self.es.len();
        if n == 0 {
            None
        } else if i == LAST {
            self.es.keys().next_back().copied()
        } else if i == LAST - 1 {
            // the entry before the newest one (the newest one when there is only one)
            self.es.keys().rev().nth(1).or_else(|| self.es.keys().next_back()).copied()
        } else {
            self.es.keys().nth(i % n).copied()
        }
    }
    fn pick_f(&self, i: usize) -> Option<usize> {
        let n = self.fs.len();
        if n == 0 {
            None
        } else if i == LAST {
            self.fs.keys().next_back().copied()
        } else if i == LAST - 1 {
            // the entry before the newest one (the newest one when there is only one)
            self.fs.keys().rev().nth(1).or_else(|| self.fs.keys().next_back()).copied()
        } else {
            self.fs.keys().nth(i % n).copied()
        }
    }
    fn pick_b(&self, i: usize) -> Option<usize> {
        let n = self.bs.len();
        if n == 0 {
            None
        } else if i == LAST {
            self.bs.keys().next_back().copied()
        } else if i == LAST - 1 {
            // the entry before the newest one (the newest one when there is only one)
            self.bs.keys().rev().nth(1).or_else(|| self.bs.keys().next_back()).copied()
        } else {
            self.bs.keys().nth(i % n).copied()
        }
    }
    fn push_e(&mut self, ev: EV) -> Id {
        let id = self.new_id();
        self.es.insert(id, ev);
        Id::E(id)
    }
    fn push_f(&mut self, fv: FV) -> Id {
        let id = self.new_id();
        self.fs.insert(id, fv);
        Id::F(id)
    }
    fn push_b(&mut self, bv: BV) -> Id {
        let id = self.new_id();
        self.bs.insert(id, bv);
        Id::B(id)
    }

    /// Model transition for an operation that needs the element side of `id`
    /// *by reference* (so the pool variable's own memo is updated).
    /// Returns the constraint cost the model predicts for the forcing part
    /// (None = not predictable).
    fn force_element(&mut self, id: usize, via: &'static str) -> Option<Cost> {
        let (memo, cst, enc, elem) = {
            let e = &self.es[&id];
            (e.memo, e.cst, e.enc, e.elem)
        };
        match memo {
            Memo::Elt | Memo::Both => Some((0, 0, 0)),
            Memo::Enc => {
                self.force_orders.entry(id).or_default().push(b'e');
                let e = self.es.get_mut(&id).unwrap();
                e.memo = Memo::Both;
                let s = enc.expect("Enc state has an encoding");
                if elem.is_none() {
                    e.poisoned = true;
                    if !cst {
                        self.sat = false;
                        self.probe("invalid_encoding_forced");
                    }
                }
                if !cst {
                    self.rels.push(Rel::Decode {
                        s,
                        out: Id::E(id),
                        via,
                        site_from: decaf377::verif::isqrt_sites(),
                    });
                    Some(calib().decode)
                } else {
                    Some((0, 0, 0))
                }
            }
        }
    }

    fn force_encoding(&mut self, id: usize) -> Option<Cost> {
        let (memo, cst) = {
            let e = &self.es[&id];
            (e.memo, e.cst)
        };
        match memo {
            Memo::Enc | Memo::Both => Some((0, 0, 0)),
            Memo::Elt => {
                self.force_orders.entry(id).or_default().push(b'c');
                let e = self.es.get_mut(&id).unwrap();
                e.memo = Memo::Both;
                if e.enc.is_none() {
                    e.enc = e.elem.map(|x| x.vartime_compress_to_field());
                }
                if !cst {
                    Some(calib().encode)
                } else {
                    Some((0, 0, 0))
                }
            }
        }
    }

    /// A clone of the variable as the owned-operand operators consume it; the
    /// clone carries the memo, forcing it does not touch the pool variable.
    fn owned(&mut self, id: usize, via: &'static str) -> (ElementVar, Option<Element>, bool, bool) {
        let e = self.es[&id].clone();
        let mut poisoned = e.poisoned;
        if e.memo == Memo::Enc {
            // the clone will be decoded by the operator
            if e.elem.is_none() {
                poisoned = true;
                if !e.cst {
                    self.sat = false;
                    self.probe("invalid_encoding_forced");
                }
            }
            if !e.cst {
                self.rels.push(Rel::Decode {
                    s: e.enc.unwrap(),
                    out: Id::E(id),
                    via,
                    site_from: decaf377::verif::isqrt_sites(),
                });
                self.probe("clone_forced_while_original_stays_unforced");
            }
        }
        (e.var, e.elem, e.cst, poisoned)
    }
}

fn digest_prefix(cs: &ConstraintSystemRef<Fq>, n: usize) -> Option<u64> {
    let inner = cs.borrow()?.clone();
    let copy = ConstraintSystemRef::new(inner);
    copy.finalize();
    let m = copy.to_matrices()?;
    let ni = m.num_instance_variables;
    let mut h = Fnv::new();
    for k in 0..n.min(m.a.len()) {
        for (tag, row) in [(b'a', &m.a[k]), (b'b', &m.b[k]), (b'c', &m.c[k])] {
            h.byte(tag);
            for (coeff, idx) in row {
                h.bytes(&coeff.to_bytes_le());
                if *idx < ni {
                    h.byte(b'I');
                    h.u64(*idx as u64);
                } else {
                    h.byte(b'W');
                    h.u64((*idx - ni) as u64);
                }
            }
        }
    }
    Some(h.finish())
}

pub struct ExecResult {
    pub out: Outcome,
    pub resolved: Vec<Resolved>,
    pub totals: Cost,
    /// observable value of every variable at the end: encoding bytes / field bytes / bool
    pub finals: BTreeMap<Id, Option<Vec<u8>>>,
    pub sat: Option<bool>,
    pub wrecked: bool,
}

/// `order`: indices into `c.ops` to execute (with `dups`: ops executed twice in a row);
/// `replay_of`: when re-executing in another order, the resolution recorded by the first pass.
pub fn run(
    c: &Circuit,
    judge: Judge,
    logging: bool,
    order: Option<&[usize]>,
    replay_of: Option<&[Resolved]>,
) -> ExecResult {
    let _ = calib(); // before any prover is installed
    let cs = ConstraintSystem::<Fq>::new_ref();
    let mut w = World {
        cs: cs.clone(),
        judge,
        es: BTreeMap::new(),
        fs: BTreeMap::new(),
        bs: BTreeMap::new(),
        next: 0,
        sat: true,
        rels: Vec::new(),
        out: Outcome::default(),
        trace: Fnv::new(),
        logging,
        prefix_digests: Vec::new(),
        force_orders: BTreeMap::new(),
        wrecked: false,
        tamper_tag: None,
    };
    // install the prover
    let hints = c.hints.clone();
    let site_log: std::rc::Rc<std::cell::RefCell<Vec<Site>>> = Default::default();
    {
        let sl = site_log.clone();
        let cs_for_hook = cs.clone();
        decaf377::verif::reset_sites();
        decaf377::verif::set_isqrt_hook(Some(Box::new(move |site, den, honest| {
            let sub = hints.get(site).cloned().unwrap_or_else(HintSub::honest);
            let (f, y) = if sub.is_honest() {
                honest
            } else {
                hint_value(&sub, den, honest)
            };
            sl.borrow_mut().push((*den, f, y, (f, y) != honest, cs_for_hook.num_witness_variables()));
            (f, y)
        })));
        let enc_hints = c.enc_hints.clone();
        decaf377::verif::set_encoding_hook(Some(Box::new(move |site, honest| {
            match enc_hints.get(site) {
                None | Some(EncSub::Honest) => honest,
                Some(EncSub::Raw(h)) => fq_hex(h),
                Some(EncSub::EncodeOf(src)) => esrc(src).vartime_compress_to_field(),
                Some(EncSub::NegHonest) => -honest,
            }
        })));
    }
    let default_order: Vec<usize> = (0..c.ops.len()).collect();
    let order = order.unwrap_or(&default_order);
    let mut resolved: Vec<Resolved> = vec![Resolved::default(); c.ops.len()];
    // when replaying in another order, ids are remapped: original id -> id in this execution
    let mut remap: BTreeMap<Id, Id> = BTreeMap::new();
    let mut seen = vec![false; c.ops.len()];
    for &oi in order {
        if w.wrecked {
            break;
        }
        let op = &c.ops[oi];
        let dup = seen[oi];
        seen[oi] = true;
        let pre = replay_of.map(|r| r[oi].clone());
        if let Some(p) = &pre {
            if p.skipped {
                continue;
            }
        }
        let before = cost_now(&cs);
        let r = step(&mut w, op, pre.as_ref(), &remap, dup);
        let after = cost_now(&cs);
        w.out.steps += 1;
        if dup {
            // a repeated pure forcing operation must emit nothing
            if cost_diff(before, after) != (0, 0, 0) {
                w.viol(
                    "C13",
                    "history_repeat_cost",
                    format!("op={}", op_name(op)),
                    format!("repeating the operation emitted {:?}", cost_diff(before, after)),
                );
            }
            continue;
        }
        if let Some(p) = &pre {
            for (a, b) in p.outs.iter().zip(r.outs.iter()) {
                remap.insert(*a, *b);
            }
            if p.outs.len() != r.outs.len() || p.failed != r.failed {
                w.viol(
                    "C13",
                    "history_outcome",
                    format!("op={}", op_name(op)),
                    "the operation succeeded in one order and failed in the other".into(),
                );
            }
        }
        if std::env::var_os("VERIF_TRACE").is_some() {
            // diagnostic aid for replays: one line per operation (never read by any check)
            let mut line = format!("trace op#{} {} ins={:?} outs={:?} failed={} skipped={}", oi, op_name(op), r.ins, r.outs, r.failed, r.skipped);
            for o in r.outs.iter().chain(r.ins.iter()) {
                if let Id::E(i) = o {
                    if let Some(ev) = w.es.get(i) {
                        line += &format!(" | E{}: cst={} elem={} memo={:?} poisoned={}", i, ev.cst, ev.elem.is_some(), ev.memo, ev.poisoned);
                    }
                }
            }
            eprintln!("{}", line);
        }
        resolved[oi] = r;
        if judge == Judge::C13 && replay_of.is_none() && c.digest_steps.contains(&oi) {
            let n = cs.num_constraints();
            if let Some(d) = digest_prefix(&cs, n) {
                w.prefix_digests.push((n, d));
            }
        }
    }
    decaf377::verif::set_isqrt_hook(None);
    decaf377::verif::set_encoding_hook(None);
    let totals = cost_now(&cs);
    w.out.constraints = totals.0 as u64;
    let sat = cs.is_satisfied().ok();
    w.out.satisfied = sat;
    // hint statistics
    for (den, f, y, changed, _) in site_log.borrow().iter() {
        w.out.steps += 1;
        if den.is_zero() {
            w.probe("hint_site_den_zero");
        } else if !bridge_is_square_inv(den) {
            w.probe("hint_site_inverse_is_nonsquare");
        }
        if *changed {
            w.fault("hint_substituted");
            let _ = (f, y);
        }
    }
    if w.wrecked {
        w.probe("history_wrecked_by_failing_gadget_on_garbage");
    }
    match judge {
        _ if w.wrecked => {}
        Judge::C13 => {
            if replay_of.is_none() {
                judge_c13_end(&mut w, sat);
            }
        }
        Judge::C14 => {
            judge_c14(&mut w, c, sat, &site_log.borrow());
            if (c.tamper_bits || c.tamper_free) && w.out.viols.is_empty() && !w.wrecked {
                tamper_phase(&mut w, c, &site_log.borrow());
            }
        }
    }
    // final observable values (after all accounting: reading may force)
    let mut finals = BTreeMap::new();
    if judge == Judge::C13 {
        let eids: Vec<usize> = w.es.keys().copied().collect();
        for id in eids {
            let e = w.es[&id].clone();
            let v = if e.poisoned || e.elem.is_none() {
                None
            } else {
                let var = e.var.clone();
                catch_unwind(AssertUnwindSafe(move || var.value().ok().map(|x| x.vartime_compress().0.to_vec())))
                    .ok()
                    .flatten()
            };
            finals.insert(Id::E(id), v);
        }
        for (id, f) in &w.fs {
            finals.insert(Id::F(*id), f.var.value().ok().map(|x| x.to_bytes_le().to_vec()));
        }
        for (id, b) in &w.bs {
            finals.insert(Id::B(*id), b.var.value().ok().map(|x| vec![x as u8]));
        }
    }
    // per-variable forcing orders reached (probe)
    let fo: Vec<Vec<u8>> = w.force_orders.values().cloned().collect();
    for o in fo {
        if o == b"e" {
            w.probe("var_forced_enc_then_elt");
        } else if o == b"c" {
            w.probe("var_forced_elt_then_enc");
        }
    }
    w.out.trace = w.trace.finish();
    ExecResult {
        wrecked: w.wrecked,
        out: w.out,
        resolved,
        totals,
        finals,
        sat,
    }
}

fn bridge_is_square_inv(den: &Fq) -> bool {
    // 1/den is a square iff den is
    simcore::field::fq().is_square(&bridge::fq_to_big(den))
}

pub fn op_name(op: &R1Op) -> &'static str {
    match op {
        R1Op::AllocFq { .. } => "alloc_from_fq",
        R1Op::AllocElem { .. } => "alloc_element",
        R1Op::AllocAffine { .. } => "alloc_affine",
        R1Op::WitnessOffer { .. } => "new_witness",
        R1Op::WitnessOfferAffine { .. } => "new_witness_affine",
        R1Op::AllocUnchecked { .. } => "new_variable_omit_prime_order_check",
        R1Op::ZeroVar => "zero",
        R1Op::ConstantVar { .. } => "constant",
        R1Op::AllocFqVar { .. } => "alloc_fqvar",
        R1Op::AllocBool { .. } => "alloc_bool",
        R1Op::Compress(_) => "compress_to_field",
        R1Op::Value(_) => "value",
        R1Op::CsOf(_) => "cs",
        R1Op::ToBits(_) => "to_bits_le",
        R1Op::ToBytes(_) => "to_bytes",
        R1Op::CloneVar(_) => "clone",
        R1Op::Decompress(_) => "decompress_from_field",
        R1Op::Elligator(_) => "encode_to_curve",
        R1Op::Add(..) => "add",
        R1Op::AddRef(..) => "add_ref",
        R1Op::Sub(..) => "sub",
        R1Op::SubRef(..) => "sub_ref",
        R1Op::AddAssign(..) => "add_assign",
        R1Op::AddAssignRef(..) => "add_assign_ref",
        R1Op::SubAssign(..) => "sub_assign",
        R1Op::SubAssignRef(..) => "sub_assign_ref",
        R1Op::AddConst(..) => "add_const",
        R1Op::SubConst(..) => "sub_const",
        R1Op::AddAssignConst(..) => "add_assign_const",
        R1Op::SubAssignConst(..) => "sub_assign_const",
        R1Op::Negate(_) => "negate",
        R1Op::Double(_) => "double_in_place",
        R1Op::Select(..) => "conditionally_select",
        R1Op::ScalarMul(..) => "scalar_mul_le",
        R1Op::ScalarMulBits(..) => "scalar_mul_le_long",
        R1Op::SelectTable { .. } => "select_table",
        R1Op::AllocFailing { .. } => "alloc_with_failing_value",
        R1Op::IsEq(..) => "is_eq",
        R1Op::IsZero(_) => "is_zero",
        R1Op::EnforceEq(..) => "enforce_equal",
        R1Op::EnforceNe(..) => "enforce_not_equal",
        R1Op::CondEnforceEq(..) => "conditional_enforce_equal",
        R1Op::CondEnforceNe(..) => "conditional_enforce_not_equal",
        R1Op::Isqrt(_) => "isqrt",
        R1Op::Abs(_) => "abs",
        R1Op::IsNegative(_) => "is_negative",
        R1Op::IsNonnegative(_) => "is_nonnegative",
    }
}

include!("step.rs");
include!("judge.rs");
include!("tamper.rs");
