// (included into exec.rs) End-of-run judgements.

include!("step2.rs");

fn judge_c13_end(w: &mut World, sat: Option<bool>) {
    // H4: satisfiability equals the model's flag
    match sat {
        Some(s) => {
            if s != w.sat {
                let which = w.cs.which_is_unsatisfied().ok().flatten().unwrap_or_default();
                w.viol(
                    "C13",
                    "satisfiability",
                    format!("model={} system={}", w.sat, s),
                    format!(
                        "the sequential model says satisfiable={}, the constraint system says {} (first unsatisfied: {:?})",
                        w.sat, s, which
                    ),
                );
            } else if !s {
                w.probe("history_ended_unsatisfied_as_predicted");
            } else {
                w.probe("history_ended_satisfied_as_predicted");
            }
        }
        None => w.viol("C13", "satisfiability", "is_satisfied_failed".into(), "is_satisfied() returned an error".into()),
    }
    // H3: constraints already emitted are never changed by later operations
    let digests = w.prefix_digests.clone();
    for (n, d) in digests {
        match digest_prefix(&w.cs, n) {
            Some(now) if now == d => w.probe("matrix_prefix_unchanged_by_later_operations"),
            Some(_) => w.viol(
                "C13",
                "append_only",
                format!("prefix={}", n),
                format!("rows [0,{}) of the constraint matrices changed after later operations", n),
            ),
            None => {}
        }
    }
}

fn val_e(w: &World, id: Id) -> Option<Result<Element, String>> {
    if let Id::E(k) = id {
        let var = w.es.get(&k)?.var.clone();
        Some(
            match catch_unwind(AssertUnwindSafe(move || var.value())) {
                Ok(Ok(v)) => Ok(v),
                Ok(Err(e)) => Err(format!("{:?}", e)),
                Err(p) => Err(format!("panic: {}", panic_msg(p))),
            },
        )
    } else {
        None
    }
}
fn val_f(w: &World, id: Id) -> Option<Fq> {
    if let Id::F(k) = id {
        w.fs.get(&k)?.var.value().ok()
    } else {
        None
    }
}
fn val_b(w: &World, id: Id) -> Option<bool> {
    if let Id::B(k) = id {
        w.bs.get(&k)?.var.value().ok()
    } else {
        None
    }
}

fn hints_key(c: &Circuit, sites: &[Site]) -> String {
    let mut parts = Vec::new();
    for (i, (den, f, y, changed, _)) in sites.iter().enumerate() {
        if *changed {
            parts.push(format!("site{}({})", i, hint_class(den, *f, y)));
        }
    }
    for (i, e) in c.enc_hints.iter().enumerate() {
        match e {
            EncSub::Honest => {}
            EncSub::Raw(h) => parts.push(format!("enc{}(raw:{})", i, s_class(&fq_hex(h)))),
            EncSub::EncodeOf(_) => parts.push(format!("enc{}(other_element)", i)),
            EncSub::NegHonest => parts.push(format!("enc{}(negated)", i)),
        }
    }
    if parts.is_empty() {
        "honest".into()
    } else {
        parts.join("+")
    }
}

/// Denominator handed to `isqrt` by the in-circuit decode of `s`.
fn decode_den(s: &Fq) -> Fq {
    let ss = s.square();
    let u1 = Fq::ONE - ss;
    let u2 = u1.square() - Fq::from(4u64 * rd::D as u64) * ss;
    u2 * u1.square()
}

/// Class of the hint actually used at the site that served the decode of `s`
/// (first site at or after `from` whose denominator is the decode's).
fn decode_site_class(s: &Fq, from: usize, sites: &[Site]) -> String {
    let den = decode_den(s);
    for (d, f, y, changed, _) in sites.iter().skip(from) {
        if *d == den {
            return if *changed {
                hint_class(d, *f, y)
            } else {
                "honest".into()
            };
        }
    }
    "site_not_found".into()
}

/// C14: on a satisfied system every recorded gadget application must be in
/// the native relation. Values are whatever the (possibly lying) prover
/// assigned; they are read only after satisfiability has been computed.
fn judge_c14(w: &mut World, c: &Circuit, sat: Option<bool>, sites: &[Site]) {
    let dishonest = sites.iter().any(|s| s.3)
        || c.enc_hints.iter().any(|e| *e != EncSub::Honest)
        || w.out.faults.contains_key("offgroup_or_offcurve_coordinates_offered");
    match sat {
        Some(true) => {
            if dishonest {
                w.probe("system_satisfied_under_a_dishonest_plan");
            }
        }
        Some(false) => {
            if dishonest {
                w.probe("dishonest_plan_made_system_unsatisfied");
            } else if w.sat {
                // honest plan, valid inputs, yet unsatisfied: completeness (C13), noted only
                w.probe("honest_plan_unsatisfied");
            }
            return;
        }
        None => return,
    }
    let hk = hints_key(c, sites);
    let rels = std::mem::take(&mut w.rels);
    for rel in rels.iter() {
        w.out.steps += 1;
        match rel {
            Rel::Decode { s, out, via, site_from } => {
                let hk = decode_site_class(s, *site_from, sites);
                let native = native_decode(s);
                let got = val_e(w, *out);
                let cls = s_class(s);
                match (native, got) {
                    (None, _) => w.viol(
                        "C14",
                        "sat_but_native_rejects",
                        format!("gadget=decode;input={};hint=({})", cls, hk),
                        format!(
                            "s = {} is decoded (reached via {}) in a satisfied system although the native decoder rejects it ({})",
                            hex(&s.to_bytes_le()),
                            via,
                            cls
                        ),
                    ),
                    (Some(n), Some(Ok(g))) => {
                        let gp = bridge::elem_to_pt(&g);
                        let ok = g == n && gp.map(|p| rd::valid_representative(&p).is_ok()).unwrap_or(false);
                        if !ok {
                            w.viol(
                                "C14",
                                "sat_but_output_differs",
                                format!("gadget=decode;input={};hint=({})", cls, hk),
                                format!("decoded variable {} != native {}", hex(&g.vartime_compress().0), hex(&n.vartime_compress().0)),
                            );
                        } else {
                            w.probe("relation_checked_on_satisfied_system");
                        }
                    }
                    (Some(_), Some(Err(e))) => w.viol(
                        "C14",
                        "sat_but_output_invalid",
                        format!("gadget=decode;input={};hint=({})", cls, hk),
                        format!("output variable has no valid value: {}", e),
                    ),
                    (Some(_), None) => {}
                }
            }
            Rel::Encode { inp, out } => {
                if let (Some(Ok(e)), Some(f)) = (val_e(w, *inp), val_f(w, *out)) {
                    let valid = bridge::elem_to_pt(&e)
                        .map(|p| rd::valid_representative(&p).is_ok())
                        .unwrap_or(false);
                    if valid {
                        if f != e.vartime_compress_to_field() {
                            w.viol(
                                "C14",
                                "sat_but_output_differs",
                                format!("gadget=encode;hints={}", hk),
                                format!(
                                    "in-circuit encoding {} != native {}",
                                    hex(&f.to_bytes_le()),
                                    hex(&e.vartime_compress_to_field().to_bytes_le())
                                ),
                            );
                        } else {
                            w.probe("relation_checked_on_satisfied_system");
                        }
                    }
                }
            }
            Rel::Elligator { inp, out } => {
                if let Some(r0) = val_f(w, *inp) {
                    let n = Element::encode_to_curve(&r0);
                    match val_e(w, *out) {
                        Some(Ok(g)) if g == n && g.vartime_compress() == n.vartime_compress() => {
                            w.probe("relation_checked_on_satisfied_system")
                        }
                        Some(Ok(g)) => w.viol(
                            "C14",
                            "sat_but_output_differs",
                            format!("gadget=elligator;hints={}", hk),
                            format!("{} != native {}", hex(&g.vartime_compress().0), hex(&n.vartime_compress().0)),
                        ),
                        Some(Err(e)) => w.viol(
                            "C14",
                            "sat_but_output_invalid",
                            format!("gadget=elligator;hints={}", hk),
                            e,
                        ),
                        None => {}
                    }
                }
            }
            Rel::Isqrt { inp, flag, y, site_from } => {
                if let (Some(x), Some(b), Some(yv)) = (val_f(w, *inp), val_b(w, *flag), val_f(w, *y)) {
                    let hk = sites
                        .iter()
                        .skip(*site_from)
                        .find(|s| s.0 == x)
                        .map(|(d, f, y, ch, _)| if *ch { hint_class(d, *f, y) } else { "honest".into() })
                        .unwrap_or_else(|| "site_not_found".into());
                    let r = rd::check_sqrt_ratio(
                        &BigUint::from(1u32),
                        &bridge::fq_to_big(&x),
                        b,
                        &bridge::fq_to_big(&yv),
                    );
                    match r {
                        Ok(_) => w.probe("relation_checked_on_satisfied_system"),
                        Err(why) => w.viol(
                            "C14",
                            "sat_but_output_differs",
                            format!(
                                "gadget=isqrt;input={};hint=({})",
                                if x.is_zero() { "zero" } else { "nonzero" },
                                hk
                            ),
                            format!("isqrt({}) = ({}, {}) satisfies the constraints: {}", hex(&x.to_bytes_le()), b, hex(&yv.to_bytes_le()), why),
                        ),
                    }
                }
            }
            Rel::Witness {
                offered,
                offered_valid,
                out,
                enc_site,
                site_from,
            } => {
                // the encoding the prover witnessed, and the hint used by the decode of it
                let witnessed: Fq = match c.enc_hints.get(*enc_site) {
                    Some(EncSub::Raw(h)) => fq_hex(h),
                    Some(EncSub::EncodeOf(src)) => esrc(src).vartime_compress_to_field(),
                    Some(EncSub::NegHonest) => -Element::verif_from_affine_unchecked(bridge::big_to_fq(&offered.0), bridge::big_to_fq(&offered.1))
                        .vartime_compress_to_field(),
                    _ => Element::verif_from_affine_unchecked(bridge::big_to_fq(&offered.0), bridge::big_to_fq(&offered.1))
                        .vartime_compress_to_field(),
                };
                let hk = decode_site_class(&witnessed, *site_from, sites);
                let enc_cls = match c.enc_hints.get(*enc_site) {
                    None | Some(EncSub::Honest) => "honest".to_string(),
                    Some(EncSub::Raw(h)) => format!("raw:{}", s_class(&fq_hex(h))),
                    Some(EncSub::EncodeOf(_)) => "other_element".to_string(),
                    Some(EncSub::NegHonest) => "negated".to_string(),
                };
                match val_e(w, *out) {
                    Some(Ok(g)) => {
                        let gp = bridge::elem_to_pt(&g);
                        let valid = gp.as_ref().map(|p| rd::valid_representative(p).is_ok()).unwrap_or(false);
                        let off = rd::Pt {
                            x: offered.0.clone(),
                            y: offered.1.clone(),
                        };
                        if !valid {
                            w.viol(
                                "C14",
                                "sat_but_output_invalid",
                                format!("gadget=new_witness;offered_valid={};enc={};hint=({})", offered_valid, enc_cls, hk),
                                "witnessed element variable is not a valid group element".into(),
                            );
                        } else if *offered_valid && !rd::equal(gp.as_ref().unwrap(), &off) {
                            w.viol(
                                "C14",
                                "sat_but_output_differs",
                                format!("gadget=new_witness;offered_valid=true;enc={};hint=({})", enc_cls, hk),
                                "witnessed element variable differs from the valid point offered".into(),
                            );
                        } else if !*offered_valid {
                            // an invalid offer was accepted, but what comes out is a valid element: allowed
                            w.probe("invalid_offer_satisfied_but_output_is_valid_element");
                        } else {
                            w.probe("relation_checked_on_satisfied_system");
                        }
                    }
                    Some(Err(e)) => w.viol(
                        "C14",
                        "sat_but_output_invalid",
                        format!("gadget=new_witness;offered_valid={};enc={};hint=({})", offered_valid, enc_cls, hk),
                        format!("witnessed element variable has no valid value: {}", e),
                    ),
                    None => {}
                }
            }
            Rel::IsEq { a, b, out } => {
                // decaf equality is defined on coordinates (X1*Y2 = Y1*X2); the gadget must agree with the
                // native comparison on whatever the two variables hold, elements or not
                if let (Some(Ok(x)), Some(Ok(y)), Some(o)) = (val_e(w, *a), val_e(w, *b), val_b(w, *out)) {
                    if o != (x == y) {
                        w.viol(
                            "C14",
                            "sat_but_output_differs",
                            format!("gadget=is_eq;native={};hints={}", x == y, hk),
                            format!(
                                "is_eq returned {} on coordinates whose native comparison is {}",
                                o,
                                x == y
                            ),
                        );
                    } else {
                        w.probe("relation_checked_on_satisfied_system");
                    }
                }
            }
            Rel::IsZero { a, out } => {
                if let (Some(Ok(x)), Some(o)) = (val_e(w, *a), val_b(w, *out)) {
                    if o != x.is_identity() {
                        w.viol(
                            "C14",
                            "sat_but_output_differs",
                            format!("gadget=is_zero;native={};hints={}", x.is_identity(), hk),
                            format!("is_zero returned {} on an element whose native identity test is {}", o, x.is_identity()),
                        );
                    } else {
                        w.probe("relation_checked_on_satisfied_system");
                    }
                }
            }
            Rel::Sign { inp, out, what } => {
                if let (Some(x), Some(b)) = (val_f(w, *inp), val_b(w, *out)) {
                    let want = is_neg(&x) == (*what == "is_negative");
                    if b != want {
                        w.viol(
                            "C14",
                            "sat_but_output_differs",
                            format!("gadget={};hints={}", what, hk),
                            format!("{}({}) = {}", what, hex(&x.to_bytes_le()), b),
                        );
                    }
                }
            }
            Rel::Abs { inp, out } => {
                if let (Some(x), Some(y)) = (val_f(w, *inp), val_f(w, *out)) {
                    let want = if is_neg(&x) { -x } else { x };
                    if y != want {
                        w.viol(
                            "C14",
                            "sat_but_output_differs",
                            format!("gadget=abs;hints={}", hk),
                            format!("abs({}) = {}", hex(&x.to_bytes_le()), hex(&y.to_bytes_le())),
                        );
                    }
                }
            }
        }
    }
    w.rels = rels;
}
