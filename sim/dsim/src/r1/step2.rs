// (included into exec.rs) Remaining operations of a history.

fn gadget_failed(w: &mut World, name: &'static str, defined: bool, e: impl std::fmt::Debug) {
    if defined && w.judge == Judge::C13 {
        w.viol("C13", "gadget_failed", format!("op={}", name), format!("{:?}", e));
    } else {
        w.probe("undefined_operation_panicked_or_failed");
        if !defined {
            w.wrecked = true;
        }
    }
}

/// Model-level "the gadget may legitimately refuse": an operand has no native
/// element (invalid encoding, constant or not) or derives from one; such
/// operands carry arbitrary coordinates, on which arkworks' own gadgets may
/// fail (e.g. DivisionByZero) -- the system is unsatisfied or the constant rejected anyway.
fn undefined_e(ev: &EV) -> bool {
    ev.elem.is_none() || ev.poisoned
}

/// A constant whose encoding is invalid: `element()` returns an error before
/// anything else happens, so which of several by-reference operands get forced
/// is an implementation detail; multi-operand by-reference operations on such
/// operands are not executed.
///
/// Only a constant *encoding* qualifies (`enc` present, native decoding fails). A derived result can be a
/// constant without being one: `scalar_mul_le` with all-false constant bits returns the constant identity
/// even when its operand was a witnessed invalid encoding (already unsatisfiable); that result has no model
/// value (`elem` is None, poisoned) but reading its gadget value is legitimate.
fn const_invalid(ev: &EV) -> bool {
    ev.cst && ev.elem.is_none() && ev.enc.is_some()
}

/// Under an adversarial prover the model's native value of a field variable
/// means nothing: what a gadget consumes is whatever the prover assigned.
fn actual_fv(w: &World, fid: usize) -> FV {
    let mut fv = w.fs[&fid].clone();
    if w.judge == Judge::C14 {
        fv.val = fv.var.value().ok();
    }
    fv
}

fn step2(w: &mut World, op: &R1Op, mut a: Args, before: Cost, dup: bool) -> Resolved {
    let name = op_name(op);
    let cs = w.cs.clone();
    let mut outs: Vec<Id> = Vec::new();
    let mut failed = false;
    let sites_before = decaf377::verif::isqrt_sites();
    macro_rules! need {
        ($x:expr) => {
            match $x {
                Some(v) => v,
                None => {
                    return Resolved {
                        ins: a.ins,
                        outs,
                        skipped: true,
                        failed: false,
                    }
                }
            }
        };
    }
    match op {
        R1Op::Value(i) => {
            let id = need!(a.e(w, *i));
            let was = w.es[&id].memo;
            let undefined = undefined_e(&w.es[&id]);
            let pred = w.force_element(id, "value");
            let ev = w.es.remove(&id).unwrap();
            let checkable = !ev.poisoned && ev.elem.is_some();
            // reading a value is not synthesis: under an adversarial prover (or on an
            // invalid encoding) arkworks' on-curve assertion may fire; that wrecks nothing
            let r = if w.judge == Judge::C14 || !checkable {
                match catch_unwind(AssertUnwindSafe(|| ev.var.value())) {
                    Ok(v) => Some(v),
                    Err(_) => {
                        w.probe("value_of_invalid_variable_panicked");
                        None
                    }
                }
            } else {
                guard(w, name, true, || ev.var.value())
            };
            let want = ev.elem;
            w.es.insert(id, ev);
            if !undefined {
                check_cost(w, name, memo_name(was), before, pred);
            }
            if was == Memo::Enc {
                w.probe("value_was_first_forcing_operation");
            }
            // a constant that is not a valid encoding has no element: reading one out of it is wrong however
            // often it is tried (native decoding fails, and there is nothing to constrain)
            if const_invalid(&w.es[&id]) {
                if let Some(Ok(v)) = &r {
                    // completeness (C13: the native decoding fails) and soundness (C14: an invalid encoding
                    // is never decoded in-circuit) both forbid this; reported under the property being judged
                    w.viol(
                        if w.judge == Judge::C14 { "C14" } else { "C13" },
                        "constant_invalid_encoding_decoded",
                        format!("op={} state={}", name, memo_name(was)),
                        format!(
                            "value() of a constant invalid encoding returned the element {}",
                            hex(&v.vartime_compress().0)
                        ),
                    );
                }
            }
            match r {
                Some(Ok(v)) => {
                    if checkable && w.judge == Judge::C13 {
                        let want = want.unwrap();
                        if v != want || v.vartime_compress() != want.vartime_compress() {
                            w.viol(
                                "C13",
                                "value",
                                format!("op={} state={}", name, memo_name(was)),
                                format!(
                                    "gadget element {} != native {}",
                                    hex(&v.vartime_compress().0),
                                    hex(&want.vartime_compress().0)
                                ),
                            );
                        }
                    }
                }
                Some(Err(e)) => {
                    failed = true;
                    if checkable && w.judge == Judge::C13 {
                        w.viol("C13", "gadget_failed", format!("op={}", name), format!("{:?}", e));
                    }
                }
                None => failed = true,
            }
        }
        R1Op::CsOf(i) => {
            let id = need!(a.e(w, *i));
            let was = w.es[&id].memo;
            let undefined = undefined_e(&w.es[&id]);
            let pred = w.force_element(id, "cs");
            let ev = w.es.remove(&id).unwrap();
            let cst = ev.cst;
            let r = guard(w, name, !undefined, || ev.var.cs().is_none());
            w.es.insert(id, ev);
            if !undefined {
                check_cost(w, name, memo_name(was), before, pred);
            }
            match r {
                Some(none) => {
                    if !undefined && none != cst && w.judge == Judge::C13 {
                        w.viol(
                            "C13",
                            "cs_of_variable",
                            format!("op={} cst={}", name, cst),
                            format!("cs().is_none() = {} for a variable with constant = {}", none, cst),
                        );
                    }
                }
                None => failed = true,
            }
        }
        R1Op::ToBits(i) | R1Op::ToBytes(i) => {
            let id = need!(a.e(w, *i));
            let undefined = undefined_e(&w.es[&id]);
            let _ = w.force_element(id, "to_bits");
            let ev = w.es.remove(&id).unwrap();
            let bits = matches!(op, R1Op::ToBits(_));
            let r = guard(w, name, !undefined, || {
                if bits {
                    ev.var.to_bits_le().map(|v| v.len())
                } else {
                    ev.var.to_bytes().map(|v| v.len())
                }
            });
            w.es.insert(id, ev);
            match r {
                Some(Ok(n)) => {
                    if n == 0 && w.judge == Judge::C13 {
                        w.viol("C13", "value", format!("op={}", name), "empty decomposition".into());
                    }
                }
                Some(Err(e)) => {
                    failed = true;
                    gadget_failed(w, name, !undefined, e);
                }
                None => failed = true,
            }
        }
        R1Op::CloneVar(i) => {
            let id = need!(a.e(w, *i));
            let ev = w.es[&id].clone();
            check_cost(w, name, "clone", before, Some((0, 0, 0)));
            if ev.memo == Memo::Both {
                w.probe("clone_taken_after_forcing");
            } else {
                w.probe("clone_taken_before_forcing");
            }
            outs.push(w.push_e(ev));
        }
        R1Op::Decompress(fi) => {
            let fid = need!(a.f(w, *fi));
            let fv = actual_fv(w, fid);
            let s = fv.val;
            let elem = s.and_then(|s| native_decode(&s));
            let defined = !(fv.cst && elem.is_none());
            let var = fv.var.clone();
            let r = guard(w, name, defined, || ElementVar::decompress_from_field(var));
            match r {
                Some(Ok(v)) => {
                    if s.is_some() {
                        let pred = if fv.cst { (0, 0, 0) } else { calib().decode };
                        check_cost(w, name, "decode", before, Some(pred));
                    }
                    let poisoned = elem.is_none();
                    if poisoned && !fv.cst {
                        w.sat = false;
                        w.probe("invalid_encoding_forced");
                    }
                    if fv.cst && poisoned {
                        w.viol(
                            if w.judge == Judge::C14 { "C14" } else { "C13" },
                            "constant_invalid_encoding_decoded",
                            format!("op={}", name),
                            "decompress_from_field accepted a constant invalid encoding".into(),
                        );
                    }
                    let id = push_derived(w, name, v, elem, fv.cst, poisoned, Memo::Both, s);
                    if let (Some(s), false) = (s, fv.cst) {
                        w.rels.push(Rel::Decode {
                            s,
                            out: id,
                            via: "decompress_from_field",
                            site_from: sites_before,
                        });
                    }
                    outs.push(id);
                }
                Some(Err(e)) => {
                    failed = true;
                    gadget_failed(w, name, defined, e);
                }
                None => failed = true,
            }
        }
        R1Op::Elligator(fi) => {
            let fid = need!(a.f(w, *fi));
            let fv = actual_fv(w, fid);
            let var = fv.var.clone();
            let r = guard(w, name, true, || ElementVar::encode_to_curve(&var));
            match r {
                Some(Ok(v)) => {
                    let elem = fv.val.map(|r0| Element::encode_to_curve(&r0));
                    let id = push_derived(w, name, v, elem, fv.cst, elem.is_none(), Memo::Elt, None);
                    if !fv.cst {
                        w.rels.push(Rel::Elligator { inp: Id::F(fid), out: id });
                    }
                    outs.push(id);
                }
                Some(Err(e)) => {
                    failed = true;
                    gadget_failed(w, name, true, e);
                }
                None => failed = true,
            }
        }
        R1Op::Add(i, j)
        | R1Op::Sub(i, j)
        | R1Op::AddAssign(i, j)
        | R1Op::SubAssign(i, j)
        | R1Op::AddRef(i, j)
        | R1Op::SubRef(i, j)
        | R1Op::AddAssignRef(i, j)
        | R1Op::SubAssignRef(i, j) => {
            let ia = need!(a.e(w, *i));
            let ib = need!(a.e(w, *j));
            let by_ref = matches!(
                op,
                R1Op::AddRef(..) | R1Op::SubRef(..) | R1Op::AddAssignRef(..) | R1Op::SubAssignRef(..)
            );
            let undefined = undefined_e(&w.es[&ia]) || undefined_e(&w.es[&ib]);
            if by_ref && (const_invalid(&w.es[&ia]) || const_invalid(&w.es[&ib])) {
                w.probe("operation_on_constant_invalid_encoding_not_executed");
                // Which operand is forced first, and whether the failure is an Err or a panic, is the
                // implementation's business; succeeding is not: there is no element to compute with. The
                // attempt runs on clones (the pool variables keep their state) and ends the judged part of
                // the history, because what the attempt emitted before failing is not modelled.
                let va = w.es[&ia].var.clone();
                let vb = w.es[&ib].var.clone();
                let opc = op.clone();
                let r = guard(w, name, false, || match opc {
                    R1Op::AddRef(..) => va + &vb,
                    R1Op::SubRef(..) => va - &vb,
                    R1Op::AddAssignRef(..) => {
                        let mut x = va;
                        x += &vb;
                        x
                    }
                    _ => {
                        let mut x = va;
                        x -= &vb;
                        x
                    }
                });
                if r.is_some() {
                    w.viol(
                        if w.judge == Judge::C14 { "C14" } else { "C13" },
                        "constant_invalid_encoding_decoded",
                        format!("op={}", name),
                        "an operator accepted a constant invalid encoding as operand and returned a result".into(),
                    );
                }
                w.wrecked = true;
                return Resolved { ins: a.ins, outs, skipped: true, failed: false };
            }
            let any_const_invalid = const_invalid(&w.es[&ia]) || const_invalid(&w.es[&ib]);
            let (va, ea, ca, pa) = w.owned(ia, "operator");
            let (vb, eb, cb, pb, taken) = if by_ref {
                let _ = w.force_element(ib, "operator");
                let e = w.es.remove(&ib).unwrap();
                (e.var.clone(), e.elem, e.cst, e.poisoned, Some(e))
            } else {
                let (v, e, c, p) = w.owned(ib, "operator");
                (v, e, c, p, None)
            };
            let opc = op.clone();
            let r = {
                let rb: &ElementVar = taken.as_ref().map(|e| &e.var).unwrap_or(&vb);
                guard(w, name, !undefined, || match opc {
                    R1Op::Add(..) => va + vb.clone(),
                    R1Op::Sub(..) => va - vb.clone(),
                    R1Op::AddRef(..) => va + rb,
                    R1Op::SubRef(..) => va - rb,
                    R1Op::AddAssign(..) => {
                        let mut x = va;
                        x += vb.clone();
                        x
                    }
                    R1Op::SubAssign(..) => {
                        let mut x = va;
                        x -= vb.clone();
                        x
                    }
                    R1Op::AddAssignRef(..) => {
                        let mut x = va;
                        x += rb;
                        x
                    }
                    _ => {
                        let mut x = va;
                        x -= rb;
                        x
                    }
                })
            };
            if let Some(e) = taken {
                w.es.insert(ib, e);
            }
            if any_const_invalid && r.is_some() {
                w.viol(
                    if w.judge == Judge::C14 { "C14" } else { "C13" },
                    "constant_invalid_encoding_decoded",
                    format!("op={}", name),
                    "an operator accepted a constant invalid encoding as operand and returned a result".into(),
                );
            }
            match r {
                Some(v) => {
                    let plus = matches!(
                        op,
                        R1Op::Add(..) | R1Op::AddRef(..) | R1Op::AddAssign(..) | R1Op::AddAssignRef(..)
                    );
                    let elem = match (ea, eb) {
                        (Some(x), Some(y)) => Some(if plus { x + y } else { x - y }),
                        _ => None,
                    };
                    let poisoned = pa || pb || elem.is_none();
                    outs.push(push_derived(w, name, v, elem, ca && cb, poisoned, Memo::Elt, None));
                }
                None => failed = true,
            }
        }
        R1Op::AddConst(i, src) | R1Op::SubConst(i, src) | R1Op::AddAssignConst(i, src) | R1Op::SubAssignConst(i, src) => {
            let ia = need!(a.e(w, *i));
            let undefined = undefined_e(&w.es[&ia]);
            let (va, ea, ca, pa) = w.owned(ia, "operator");
            let k = esrc(src);
            let opc = op.clone();
            let r = guard(w, name, !undefined, || match opc {
                R1Op::AddConst(..) => va + k,
                R1Op::SubConst(..) => va - k,
                R1Op::AddAssignConst(..) => {
                    let mut x = va;
                    x += k;
                    x
                }
                _ => {
                    let mut x = va;
                    x -= k;
                    x
                }
            });
            match r {
                Some(v) => {
                    let plus = matches!(op, R1Op::AddConst(..) | R1Op::AddAssignConst(..));
                    let elem = ea.map(|x| if plus { x + k } else { x - k });
                    outs.push(push_derived(w, name, v, elem, ca, pa || elem.is_none(), Memo::Elt, None));
                }
                None => failed = true,
            }
        }
        R1Op::Negate(i) => {
            let id = need!(a.e(w, *i));
            let undefined = undefined_e(&w.es[&id]);
            let _ = w.force_element(id, "negate");
            let ev = w.es.remove(&id).unwrap();
            let r = guard(w, name, !undefined, || ev.var.negate());
            let (elem, cst, poisoned) = (ev.elem, ev.cst, ev.poisoned);
            w.es.insert(id, ev);
            match r {
                Some(Ok(v)) => {
                    let e = elem.map(|x| -x);
                    outs.push(push_derived(w, name, v, e, cst, poisoned || e.is_none(), Memo::Elt, None));
                }
                Some(Err(e)) => {
                    failed = true;
                    gadget_failed(w, name, !undefined, e);
                }
                None => failed = true,
            }
        }
        R1Op::Double(i) => {
            let id = need!(a.e(w, *i));
            let undefined = undefined_e(&w.es[&id]);
            let (va, ea, ca, pa) = w.owned(id, "double_in_place");
            let r = guard(w, name, !undefined, || {
                let mut x = va;
                x.double_in_place().map(|_| x)
            });
            match r {
                Some(Ok(v)) => {
                    let e = ea.map(|x| x + x);
                    outs.push(push_derived(w, name, v, e, ca, pa || e.is_none(), Memo::Elt, None));
                }
                Some(Err(e)) => {
                    failed = true;
                    gadget_failed(w, name, !undefined, e);
                }
                None => failed = true,
            }
        }
        R1Op::Select(b, i, j) => {
            let bid = need!(a.b(w, *b));
            let ia = need!(a.e(w, *i));
            let ib = need!(a.e(w, *j));
            let undefined = undefined_e(&w.es[&ia]) || undefined_e(&w.es[&ib]);
            if const_invalid(&w.es[&ia]) || const_invalid(&w.es[&ib]) {
                w.probe("operation_on_constant_invalid_encoding_not_executed");
                return Resolved { ins: a.ins, outs, skipped: true, failed: false };
            }
            let _ = w.force_element(ia, "conditionally_select");
            let _ = w.force_element(ib, "conditionally_select");
            let bv = w.bs[&bid].clone();
            let x = w.es[&ia].clone();
            let same = ia == ib;
            let ea = w.es.remove(&ia).unwrap();
            let eb = if same { None } else { w.es.remove(&ib) };
            let r = {
                let rb = eb.as_ref().map(|e| &e.var).unwrap_or(&ea.var);
                let ra = &ea.var;
                guard(w, name, !undefined, || ElementVar::conditionally_select(&bv.var, ra, rb))
            };
            let y = eb.clone().unwrap_or_else(|| x.clone());
            w.es.insert(ia, ea);
            if let Some(e) = eb {
                w.es.insert(ib, e);
            }
            match r {
                Some(Ok(v)) => {
                    let elem = match (bv.val, x.elem, y.elem) {
                        (Some(true), Some(p), _) => Some(p),
                        (Some(false), _, Some(q)) => Some(q),
                        _ => None,
                    };
                    let poisoned = x.poisoned || y.poisoned || elem.is_none();
                    // a constant condition returns the chosen operand itself; a variable condition yields variables
                    let cst = match (bv.cst, bv.val) {
                        (true, Some(true)) => x.cst,
                        (true, Some(false)) => y.cst,
                        _ => false,
                    };
                    outs.push(push_derived(w, name, v, elem, cst, poisoned, Memo::Elt, None));
                }
                Some(Err(e)) => {
                    failed = true;
                    gadget_failed(w, name, !undefined, e);
                }
                None => failed = true,
            }
        }
        R1Op::ScalarMul(i, k, mode) => {
            let id = need!(a.e(w, *i));
            let undefined = undefined_e(&w.es[&id]);
            let (va, ea, ca, pa) = w.owned(id, "scalar_mul_le");
            let nbits = (16 - k.leading_zeros()).max(1) as usize;
            let mut bits = Vec::new();
            for t in 0..nbits {
                match Boolean::new_variable(cs.clone(), || Ok((k >> t) & 1 == 1), amode(*mode)) {
                    Ok(b) => bits.push(b),
                    Err(_) => {}
                }
            }
            let r = guard(w, name, !undefined, || va.scalar_mul_le(bits.iter()));
            match r {
                Some(Ok(v)) => {
                    let e = ea.map(|x| x * decaf377::Fr::from(*k as u64));
                    let cst = *mode == Mode::Constant && (ca || *k == 0);
                    outs.push(push_derived(w, name, v, e, cst, pa || e.is_none(), Memo::Elt, None));
                }
                Some(Err(e)) => {
                    failed = true;
                    gadget_failed(w, name, !undefined, e);
                }
                None => failed = true,
            }
        }
        R1Op::SelectTable { nbits, entries, index, bits } => {
            let n = (*nbits as usize).clamp(1, 3);
            let m = 1usize << n;
            let idx = (*index as usize) % m;
            let natives: Vec<Element> = (0..m).map(|j| Element::GENERATOR * decaf377::Fr::from(j as u64 + 2)).collect();
            let mut table = Vec::new();
            for (j, e) in natives.iter().enumerate() {
                let mode = match entries % 3 {
                    0 => AllocationMode::Constant,
                    1 => AllocationMode::Witness,
                    _ => {
                        if j % 2 == 0 {
                            AllocationMode::Constant
                        } else {
                            AllocationMode::Witness
                        }
                    }
                };
                let e = *e;
                match guard(w, name, true, || <ElementVar as AllocVar<Element, Fq>>::new_variable(cs.clone(), || Ok(e), mode)) {
                    Some(Ok(v)) => table.push(v),
                    _ => {
                        return Resolved { ins: a.ins, outs, skipped: false, failed: true };
                    }
                }
            }
            // position[0] is the most significant bit
            let mut pos = Vec::new();
            for t in 0..n {
                let bit = (idx >> (n - 1 - t)) & 1 == 1;
                if let Ok(b) = Boolean::new_variable(cs.clone(), || Ok(bit), amode(*bits)) {
                    pos.push(b);
                }
            }
            let r = guard(w, name, true, || ElementVar::conditionally_select_power_of_two_vector(&pos, &table));
            match r {
                Some(Ok(v)) => {
                    w.probe("table_lookup_checked");
                    match guard(w, name, true, || v.value()) {
                        Some(Ok(got)) if got == natives[idx] => {}
                        Some(Ok(got)) => w.viol(
                            "C13",
                            "value",
                            format!("op={}", name),
                            format!(
                                "lookup of entry {} in a table of {} gave {} instead of {}",
                                idx,
                                m,
                                hex(&got.vartime_compress().0),
                                hex(&natives[idx].vartime_compress().0)
                            ),
                        ),
                        Some(Err(e)) => w.viol("C13", "value", format!("op={}", name), format!("value() failed: {:?}", e)),
                        None => {}
                    }
                }
                Some(Err(e)) => {
                    failed = true;
                    gadget_failed(w, name, true, e);
                }
                None => failed = true,
            }
        }
        R1Op::AllocFailing { mode, affine } => {
            let m = amode(*mode);
            let aff = *affine;
            let r = guard(w, name, false, || {
                if aff {
                    <ElementVar as AllocVar<crate::bridge::AffinePoint, Fq>>::new_variable(
                        cs.clone(),
                        || Err::<crate::bridge::AffinePoint, _>(ark_relations::r1cs::SynthesisError::AssignmentMissing),
                        m,
                    )
                } else {
                    <ElementVar as AllocVar<Element, Fq>>::new_variable(
                        cs.clone(),
                        || Err::<Element, _>(ark_relations::r1cs::SynthesisError::AssignmentMissing),
                        m,
                    )
                }
            });
            if let Some(Ok(_)) = r {
                w.viol(
                    "C13",
                    "gadget_succeeded",
                    format!("op={} mode={:?}", name, mode),
                    "an allocation succeeded although its value closure failed (there is no native value)".into(),
                );
            } else {
                w.probe("failing_value_closure_refused");
            }
            // arkworks counts the variable before it calls the closure: nothing after this is judged
            w.wrecked = true;
            failed = true;
        }
        R1Op::ScalarMulBits(i, h, nbits, pat) => {
            let id = need!(a.e(w, *i));
            let undefined = undefined_e(&w.es[&id]);
            let (va, ea, ca, pa) = w.owned(id, "scalar_mul_le");
            let mut bytes = simcore::digest::unhex(h).unwrap_or_default();
            bytes.resize(66, 0);
            let n = (*nbits as usize).clamp(1, 520);
            let mut bits = Vec::new();
            let mut all_const = true;
            let mut masked = [0u8; 66];
            for t in 0..n {
                let bit = (bytes[t / 8] >> (t % 8)) & 1 == 1;
                if bit {
                    masked[t / 8] |= 1 << (t % 8);
                }
                let constant = match pat % 4 {
                    0 => false,
                    1 => true,
                    2 => t < 64,
                    _ => t % 3 == 0,
                };
                all_const &= constant;
                let m = if constant { AllocationMode::Constant } else { AllocationMode::Witness };
                if let Ok(b) = Boolean::new_variable(cs.clone(), || Ok(bit), m) {
                    bits.push(b);
                }
            }
            let r = guard(w, name, !undefined, || va.scalar_mul_le(bits.iter()));
            match r {
                Some(Ok(v)) => {
                    // the bit string denotes an integer below 2^256; multiplying by it is multiplying by it mod r
                    let k = decaf377::Fr::from_le_bytes_mod_order(&masked);
                    let e = ea.map(|x| x * k);
                    let zero = masked.iter().all(|b| *b == 0);
                    let cst = all_const && (ca || zero);
                    if n > 64 {
                        w.probe("scalar_mul_with_more_than_64_bits");
                    }
                    outs.push(push_derived(w, name, v, e, cst, pa || e.is_none(), Memo::Elt, None));
                }
                Some(Err(e)) => {
                    failed = true;
                    gadget_failed(w, name, !undefined, e);
                }
                None => failed = true,
            }
        }
        R1Op::IsZero(i) => {
            let id = need!(a.e(w, *i));
            let undefined = undefined_e(&w.es[&id]);
            if const_invalid(&w.es[&id]) {
                return Resolved { ins: a.ins, outs, skipped: true, failed: false };
            }
            let _ = w.force_element(id, "is_zero");
            let ev = w.es.remove(&id).unwrap();
            let r = guard(w, name, !undefined, || <ElementVar as CurveVar<Element, Fq>>::is_zero(&ev.var));
            let (elem, cst, poisoned) = (ev.elem, ev.cst, ev.poisoned);
            w.es.insert(id, ev);
            match r {
                Some(Ok(b)) => {
                    let native = if poisoned { None } else { elem.map(|e| e.is_identity()) };
                    check_bool(w, name, &b, native);
                    let out = w.push_b(BV {
                        var: b,
                        val: native,
                        cst,
                    });
                    if !cst {
                        w.rels.push(Rel::IsZero { a: Id::E(id), out });
                    }
                    outs.push(out);
                }
                Some(Err(e)) => {
                    failed = true;
                    gadget_failed(w, name, !undefined, e);
                }
                None => failed = true,
            }
        }
        R1Op::IsEq(i, j) | R1Op::EnforceEq(i, j) | R1Op::EnforceNe(i, j) => {
            let ia = need!(a.e(w, *i));
            let ib = need!(a.e(w, *j));
            step_eq(w, op, ia, ib, None, &mut outs, &mut failed);
        }
        R1Op::CondEnforceEq(b, i, j) | R1Op::CondEnforceNe(b, i, j) => {
            let bid = need!(a.b(w, *b));
            let ia = need!(a.e(w, *i));
            let ib = need!(a.e(w, *j));
            step_eq(w, op, ia, ib, Some(bid), &mut outs, &mut failed);
        }
        R1Op::Isqrt(fi) => {
            let fid = need!(a.f(w, *fi));
            let fv = actual_fv(w, fid);
            let var = fv.var.clone();
            let r = guard(w, name, true, || var.isqrt());
            match r {
                Some(Ok((b, y))) => {
                    let native = fv.val.map(|x| Fq::sqrt_ratio_zeta(&Fq::ONE, &x));
                    check_bool(w, name, &b, native.map(|n| n.0));
                    check_fq(w, name, &y, native.map(|n| n.1));
                    let bid = w.push_b(BV {
                        var: b,
                        val: native.map(|n| n.0),
                        cst: fv.cst,
                    });
                    let yid = w.push_f(FV {
                        var: y,
                        val: native.map(|n| n.1),
                        cst: fv.cst,
                    });
                    if !fv.cst {
                        w.rels.push(Rel::Isqrt {
                            inp: Id::F(fid),
                            flag: bid,
                            y: yid,
                            site_from: sites_before,
                        });
                    }
                    outs.push(bid);
                    outs.push(yid);
                }
                Some(Err(e)) => {
                    failed = true;
                    gadget_failed(w, name, true, e);
                }
                None => failed = true,
            }
        }
        R1Op::Abs(fi) => {
            let fid = need!(a.f(w, *fi));
            let fv = actual_fv(w, fid);
            let var = fv.var.clone();
            let r = guard(w, name, true, || var.abs());
            match r {
                Some(Ok(y)) => {
                    let native = fv.val.map(|x| if is_neg(&x) { -x } else { x });
                    check_fq(w, name, &y, native);
                    let yid = w.push_f(FV {
                        var: y,
                        val: native,
                        cst: fv.cst,
                    });
                    if !fv.cst {
                        w.rels.push(Rel::Abs { inp: Id::F(fid), out: yid });
                    }
                    outs.push(yid);
                }
                Some(Err(e)) => {
                    failed = true;
                    gadget_failed(w, name, true, e);
                }
                None => failed = true,
            }
        }
        R1Op::IsNegative(fi) | R1Op::IsNonnegative(fi) => {
            let fid = need!(a.f(w, *fi));
            let fv = actual_fv(w, fid);
            let var = fv.var.clone();
            let negq = matches!(op, R1Op::IsNegative(_));
            let r = guard(w, name, true, || if negq { var.is_negative() } else { var.is_nonnegative() });
            match r {
                Some(Ok(b)) => {
                    let native = fv.val.map(|x| is_neg(&x) == negq);
                    check_bool(w, name, &b, native);
                    let bid = w.push_b(BV {
                        var: b,
                        val: native,
                        cst: fv.cst,
                    });
                    if !fv.cst {
                        w.rels.push(Rel::Sign {
                            inp: Id::F(fid),
                            out: bid,
                            what: if negq { "is_negative" } else { "is_nonnegative" },
                        });
                    }
                    outs.push(bid);
                }
                Some(Err(e)) => {
                    failed = true;
                    gadget_failed(w, name, true, e);
                }
                None => failed = true,
            }
        }
        _ => {}
    }
    let _ = (before, dup);
    Resolved {
        ins: a.ins,
        outs,
        skipped: false,
        failed,
    }
}

fn step_eq(w: &mut World, op: &R1Op, ia: usize, ib: usize, cond: Option<usize>, outs: &mut Vec<Id>, failed: &mut bool) {
    let name = op_name(op);
    let undefined = undefined_e(&w.es[&ia]) || undefined_e(&w.es[&ib]);
    if const_invalid(&w.es[&ia]) || const_invalid(&w.es[&ib]) {
        w.probe("operation_on_constant_invalid_encoding_not_executed");
        return;
    }
    let _ = w.force_element(ia, "equality");
    let _ = w.force_element(ib, "equality");
    let x = w.es[&ia].clone();
    let same = ia == ib;
    let ea = w.es.remove(&ia).unwrap();
    let eb = if same { None } else { w.es.remove(&ib) };
    let y = eb.clone().unwrap_or_else(|| x.clone());
    let cv = cond.map(|c| w.bs[&c].clone());
    let native_eq = match (x.elem, y.elem) {
        (Some(p), Some(q)) if !x.poisoned && !y.poisoned => Some(p == q),
        _ => None,
    };
    let all_cst = x.cst && y.cst;
    enum R {
        B(Result<Boolean<Fq>, ark_relations::r1cs::SynthesisError>),
        U(Result<(), ark_relations::r1cs::SynthesisError>),
    }
    let opc = op.clone();
    let r = {
        let ra = &ea.var;
        let rb = eb.as_ref().map(|e| &e.var).unwrap_or(&ea.var);
        let cvar = cv.as_ref().map(|c| c.var.clone());
        guard(w, name, !undefined, || match opc {
            R1Op::IsEq(..) => R::B(ra.is_eq(rb)),
            R1Op::EnforceEq(..) => R::U(ra.enforce_equal(rb)),
            R1Op::EnforceNe(..) => R::U(ra.enforce_not_equal(rb)),
            R1Op::CondEnforceEq(..) => R::U(ra.conditional_enforce_equal(rb, cvar.as_ref().unwrap())),
            _ => R::U(ra.conditional_enforce_not_equal(rb, cvar.as_ref().unwrap())),
        })
    };
    w.es.insert(ia, ea);
    if let Some(e) = eb {
        w.es.insert(ib, e);
    }
    match r {
        Some(R::B(Ok(b))) => {
            check_bool(w, name, &b, native_eq);
            let out = w.push_b(BV {
                var: b,
                val: native_eq,
                cst: all_cst,
            });
            if !all_cst {
                w.rels.push(Rel::IsEq {
                    a: Id::E(ia),
                    b: Id::E(ib),
                    out,
                });
            }
            outs.push(out);
        }
        Some(R::B(Err(e))) => {
            *failed = true;
            gadget_failed(w, name, !undefined, e);
        }
        Some(R::U(res)) => {
            let want_eq = matches!(op, R1Op::EnforceEq(..) | R1Op::CondEnforceEq(..));
            let active = cv.as_ref().map(|c| c.val).unwrap_or(Some(true));
            if let (Some(eq), Some(true)) = (native_eq, active) {
                if eq != want_eq {
                    // a contradiction between constants cannot be expressed as a constraint: the pinned code
                    // returns an error. Either outcome is acceptable (an error, or a system that is no longer
                    // satisfiable); returning Ok and leaving the system satisfiable is not.
                    if !all_cst || res.is_ok() {
                        w.sat = false;
                        w.probe("contradictory_enforcement_made_system_unsatisfied");
                    }
                    if all_cst {
                        w.probe("contradictory_enforcement_between_constants");
                    }
                } else if res.is_err() && !undefined && w.judge == Judge::C13 {
                    w.viol(
                        "C13",
                        "gadget_failed",
                        format!("op={}", name),
                        format!("a true (in)equality could not be enforced: {:?}", res),
                    );
                }
            }
            if res.is_err() {
                *failed = true;
            }
        }
        None => *failed = true,
    }
}
