//! Native-side helpers of the r1cs engine: element sources, adversarial
//! coordinate offers and hint substitutions (computed by the reference model).

use super::model::*;
use crate::bridge;
use decaf377::{Element, Encoding, Fq, Fr};
use num_bigint::BigUint;
use simcore::decaf::{self as rd, Pt};
use simcore::digest::unhex;
use simcore::field::fq;

pub fn fq_hex(h: &str) -> Fq {
    Fq::from_le_bytes_mod_order(&unhex(h).unwrap_or_default())
}
pub fn fr_hex(h: &str) -> Fr {
    Fr::from_le_bytes_mod_order(&unhex(h).unwrap_or_default())
}
pub fn h32(h: &str) -> [u8; 32] {
    let v = unhex(h).unwrap_or_default();
    let mut a = [0u8; 32];
    let n = v.len().min(32);
    a[..n].copy_from_slice(&v[..n]);
    a
}

pub fn esrc(src: &ESrc) -> Element {
    let g = Element::GENERATOR;
    match src {
        ESrc::Identity => Element::IDENTITY,
        ESrc::Generator => g,
        ESrc::Torsion2 => g + g * (-Fr::from(1u64)),
        ESrc::MulGen(k) => g * Fr::from(*k),
        ESrc::NegMulGen(h) => -(g * fr_hex(h)),
        ESrc::MulNegGen(h) => g * (-fr_hex(h)),
        ESrc::Decode(h) => Encoding(h32(h))
            .vartime_decompress()
            .unwrap_or(Element::IDENTITY),
        ESrc::Elligator(h) => Element::encode_to_curve(&fq_hex(h)),
        ESrc::Mixed(h, k) => {
            let e = Element::encode_to_curve(&fq_hex(h));
            e + e + g * Fr::from(*k)
        }
    }
}

/// Affine coordinates (as reference integers) of what the prover offers.
pub fn offer_coords(o: &Offer) -> (BigUint, BigUint) {
    let f = fq();
    let pt = |s: &ESrc| bridge::elem_to_pt(&esrc(s)).unwrap_or_else(rd::identity);
    match o {
        Offer::Honest(s) => {
            let p = pt(s);
            (p.x, p.y)
        }
        Offer::Raw { x, y } => (
            bridge::fq_to_big(&fq_hex(x)),
            bridge::fq_to_big(&fq_hex(y)),
        ),
        Offer::PlusT4(s) => {
            let p = rd::add(&pt(s), &rd::t4());
            (p.x, p.y)
        }
        Offer::SameRatioSibling(s) => {
            // points (rho*Y, Y) on the curve: Y^2 (1 - rho^2) = 1 + d rho^2 Y^4, a quadratic in Y^2
            // whose two roots multiply to 1/(d rho^2): Y2^2 = 1/(d rho^2 Y1^2)
            let p = pt(s);
            if p.x == BigUint::from(0u32) || p.y == BigUint::from(0u32) {
                return (p.x, p.y);
            }
            let rho = f.mul(&p.x, &f.inv(&p.y));
            let y2sq = f.inv(&f.mul(&rd::d(), &f.mul(&f.sqr(&rho), &f.sqr(&p.y))));
            match f.sqrt(&y2sq) {
                Some(y2) => (f.mul(&rho, &y2), y2),
                None => (p.x, p.y),
            }
        }
        Offer::OtherCoset(s) => {
            let p = pt(s);
            (f.neg(&p.x), f.neg(&p.y))
        }
        Offer::Scaled(s, l) => {
            let p = pt(s);
            let l = BigUint::from(*l);
            (f.mul(&p.x, &l), f.mul(&p.y, &l))
        }
        Offer::T2 => (BigUint::from(0u32), f.neg(&BigUint::from(1u32))),
        Offer::Zero00 => (BigUint::from(0u32), BigUint::from(0u32)),
    }
}

pub fn offer_is_valid(o: &Offer) -> bool {
    let (x, y) = offer_coords(o);
    rd::valid_representative(&Pt { x, y }).is_ok()
}

/// The value a hint substitution puts at a site with denominator `den`.
pub fn hint_value(sub: &HintSub, den: &Fq, honest: (bool, Fq)) -> (bool, Fq) {
    let f = fq();
    let d = bridge::fq_to_big(den);
    let flag = sub.flag.unwrap_or(honest.0);
    let hy = bridge::fq_to_big(&honest.1);
    let one = BigUint::from(1u32);
    // case 1 of the gadget uses 1/den with den replaced by 1 when den = 0
    let den_or_one = if d == BigUint::from(0u32) { one.clone() } else { d.clone() };
    let y: BigUint = match &sub.y {
        YChoice::Honest => hy,
        YChoice::NegHonest => f.neg(&hy),
        YChoice::Zero => BigUint::from(0u32),
        YChoice::One => one,
        YChoice::MinusOne => f.neg(&one),
        YChoice::SqrtInv(neg) => match f.sqrt(&f.inv(&den_or_one)) {
            Some(r) => {
                if *neg {
                    f.neg(&r)
                } else {
                    r
                }
            }
            None => hy,
        },
        YChoice::SqrtZetaInv(neg) => match f.sqrt(&f.mul(rd::zeta(), &f.inv(&den_or_one))) {
            Some(r) => {
                if *neg {
                    f.neg(&r)
                } else {
                    r
                }
            }
            None => hy,
        },
        YChoice::ZetaHonest => f.mul(rd::zeta(), &hy),
        YChoice::Random(h) => bridge::fq_to_big(&fq_hex(h)),
    };
    (flag, bridge::big_to_fq(&y))
}

/// Class of a substituted hint relative to its site, for violation keys.
pub fn hint_class(den: &Fq, flag: bool, y: &Fq) -> String {
    let f = fq();
    let d = bridge::fq_to_big(den);
    let yy = f.sqr(&bridge::fq_to_big(y));
    let one = BigUint::from(1u32);
    let zero = BigUint::from(0u32);
    let yc = if yy == zero {
        "y=0"
    } else if d != zero && f.mul(&yy, &d) == one {
        "y^2=1/den"
    } else if d != zero && f.mul(&yy, &d) == *rd::zeta() {
        "y^2=zeta/den"
    } else if yy == one {
        "y^2=1"
    } else if yy == *rd::zeta() {
        "y^2=zeta"
    } else {
        "y=other"
    };
    format!("den{}0,flag={},{}", if d == zero { "=" } else { "!=" }, flag, yc)
}

pub fn s_class(s: &Fq) -> &'static str {
    let mut b = [0u8; 32];
    b.copy_from_slice(&s.to_bytes_le());
    match rd::decode(&b) {
        Ok(_) => {
            if bridge::fq_to_big(s) == BigUint::from(0u32) {
                "zero"
            } else {
                "valid"
            }
        }
        Err(r) => r.name(),
    }
}
