//! Plain data of the r1cs engine: a circuit-building history (operations on a
//! pool of R1CS variables sharing one constraint system) plus the prover's
//! hint plan. This is what a replay file stores and what the minimiser edits.

use serde::{Deserialize, Serialize};

pub type Hex = String;

/// Pool index meaning "the most recently created variable of that kind".
pub const LAST: usize = usize::MAX;

#[derive(Clone, Copy, Debug, Serialize, Deserialize, PartialEq, Eq, PartialOrd, Ord)]
pub enum Mode {
    Constant,
    Input,
    Witness,
}

/// Native element sources.
#[derive(Clone, Debug, Serialize, Deserialize, PartialEq, Eq)]
pub enum ESrc {
    Identity,
    Generator,
    /// G + (-1)*G: the (0,-1) representative of the identity
    Torsion2,
    MulGen(u64),
    /// -(k*B)
    NegMulGen(Hex),
    /// (-k)*B, the other coset representative of the same element
    MulNegGen(Hex),
    /// decode of a known valid encoding
    Decode(Hex),
    /// Elligator of a field element (32 LE bytes, reduced)
    Elligator(Hex),
    /// 2*Elligator(..) + k*B, a projective point with Z != 1
    Mixed(Hex, u64),
}

/// What the prover offers as coordinates when an element is witnessed.
#[derive(Clone, Debug, Serialize, Deserialize, PartialEq, Eq)]
pub enum Offer {
    Honest(ESrc),
    /// arbitrary pair (32 LE bytes each, reduced)
    Raw { x: Hex, y: Hex },
    /// valid point translated by a point of order 4: on the curve, outside 2E
    PlusT4(ESrc),
    /// the other solution of the curve equation with the same ratio x/y, when it exists
    SameRatioSibling(ESrc),
    /// (-x,-y): the other valid representative
    OtherCoset(ESrc),
    /// (0,-1)
    T2,
    /// (0,0)
    Zero00,
    /// (l*x, l*y) for a valid (x,y): off the curve, on the line through the origin (same ratio x/y)
    Scaled(ESrc, u64),
}

#[derive(Clone, Debug, Serialize, Deserialize, PartialEq, Eq)]
pub enum R1Op {
    // --- allocation -------------------------------------------------------
    /// ElementVar from a field element: starts in the Encoding state, nothing decoded yet
    AllocFq { mode: Mode, s: Hex },
    AllocElem { mode: Mode, src: ESrc },
    AllocAffine { mode: Mode, src: ESrc },
    /// new_witness::<Element> of arbitrary coordinates
    WitnessOffer { offer: Offer },
    /// the same through the other allocation entry point, new_witness::<AffinePoint>
    WitnessOfferAffine { offer: Offer },
    /// CurveVar::new_variable_omit_prime_order_check (witness mode) of arbitrary coordinates: a public
    /// constructor that performs no decaf validity check (C14 circuits only)
    AllocUnchecked { offer: Offer },
    ZeroVar,
    ConstantVar { src: ESrc },
    AllocFqVar { mode: Mode, v: Hex },
    AllocBool { mode: Mode, v: bool },
    // --- forcing ----------------------------------------------------------
    Compress(usize),
    Value(usize),
    CsOf(usize),
    ToBits(usize),
    ToBytes(usize),
    CloneVar(usize),
    // --- computing --------------------------------------------------------
    Decompress(usize),
    Elligator(usize),
    Add(usize, usize),
    AddRef(usize, usize),
    Sub(usize, usize),
    SubRef(usize, usize),
    AddAssign(usize, usize),
    AddAssignRef(usize, usize),
    SubAssign(usize, usize),
    SubAssignRef(usize, usize),
    AddConst(usize, ESrc),
    SubConst(usize, ESrc),
    AddAssignConst(usize, ESrc),
    SubAssignConst(usize, ESrc),
    Negate(usize),
    Double(usize),
    Select(usize, usize, usize),
    /// scalar_mul_le with the bits of this small scalar allocated in this mode
    ScalarMul(usize, u16, Mode),
    /// scalar_mul_le with a long bit string: the low `nbits` (1..=520) bits of this little-endian byte
    /// string (up to 66 bytes); bit allocation pattern 0 = witnesses, 1 = constants, 2 = first 64 constants then witnesses,
    /// 3 = witnesses with every third bit a constant
    ScalarMulBits(usize, Hex, u16, u8),
    /// CondSelectGadget::conditionally_select_power_of_two_vector on a fresh table of 2^nbits entries
    /// ((j+2)*B; entry modes: 0 constants, 1 witnesses, 2 alternating), position bits (big-endian, as the
    /// gadget defines them) allocated in this mode and denoting `index`
    SelectTable { nbits: u8, entries: u8, index: u8, bits: Mode },
    /// an allocation whose value closure fails (the native value does not exist): must not succeed.
    /// Ends the judged part of the history (arkworks bumps the variable count before calling the closure)
    AllocFailing { mode: Mode, affine: bool },
    IsEq(usize, usize),
    /// CurveVar::is_zero: membership in the identity class {(0,1), (0,-1)}
    IsZero(usize),
    EnforceEq(usize, usize),
    EnforceNe(usize, usize),
    CondEnforceEq(usize, usize, usize),
    CondEnforceNe(usize, usize, usize),
    Isqrt(usize),
    Abs(usize),
    IsNegative(usize),
    IsNonnegative(usize),
}

#[derive(Clone, Debug, Serialize, Deserialize, PartialEq, Eq)]
pub enum YChoice {
    Honest,
    NegHonest,
    Zero,
    One,
    MinusOne,
    /// +-sqrt(1/den) when it exists (den replaced by 1 when den = 0)
    SqrtInv(bool),
    /// +-sqrt(zeta/den) when it exists
    SqrtZetaInv(bool),
    ZetaHonest,
    Random(Hex),
}

/// Substitution at one `isqrt` hint site; `None` flag = keep the honest flag.
#[derive(Clone, Debug, Serialize, Deserialize, PartialEq, Eq)]
pub struct HintSub {
    pub flag: Option<bool>,
    pub y: YChoice,
}

impl HintSub {
    pub fn honest() -> HintSub {
        HintSub {
            flag: None,
            y: YChoice::Honest,
        }
    }
    pub fn is_honest(&self) -> bool {
        self.flag.is_none() && self.y == YChoice::Honest
    }
}

/// Substitution of the witnessed encoding when an element is witnessed.
#[derive(Clone, Debug, Serialize, Deserialize, PartialEq, Eq)]
pub enum EncSub {
    Honest,
    /// the negation of the honest encoding (same element up to the sign rule, not a valid encoding)
    NegHonest,
    Raw(Hex),
    EncodeOf(ESrc),
}

#[derive(Clone, Debug, Default, Serialize, Deserialize, PartialEq, Eq)]
pub struct Circuit {
    pub ops: Vec<R1Op>,
    /// substitutions by isqrt site index, in order of occurrence; missing = honest
    pub hints: Vec<HintSub>,
    pub enc_hints: Vec<EncSub>,
    /// after which op indices the matrix-prefix digest is taken (append-only check)
    pub digest_steps: Vec<usize>,
    /// seed of the second order used by the order-independence history check (0 = skip)
    pub reorder_seed: u64,
    /// C14 only: after synthesis, additionally play a prover who rewrites the witnessed bit
    /// decompositions (every window of 253 consecutive boolean witnesses whose value v satisfies
    /// v + q < 2^253 is replaced by the bits of v + q) and check every resulting satisfied system
    #[serde(default)]
    pub tamper_bits: bool,
    /// C14 only: additionally flip every boolean witness that is not part of a bit decomposition, one at
    /// a time, repair the witnesses defined after it, and judge every assignment that satisfies all rows
    #[serde(default)]
    pub tamper_free: bool,
}

impl Circuit {
    pub fn dishonest(&self) -> bool {
        self.hints.iter().any(|h| !h.is_honest())
            || self.enc_hints.iter().any(|e| *e != EncSub::Honest)
            || self.ops.iter().any(|o| matches!(o, R1Op::WitnessOffer { offer } | R1Op::WitnessOfferAffine { offer } if !matches!(offer, Offer::Honest(_))))
    }
}
