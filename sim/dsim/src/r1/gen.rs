//! Seeded generation of circuit-building histories (C13) and of small
//! circuits with adversarial hint plans (C14).

use super::model::*;
use crate::io::gen::Corpus;
use num_bigint::BigUint;
use simcore::digest::hex;
use simcore::field::{fq, fr, Fld};
use simcore::prng::Rng;

fn le32(x: &BigUint) -> Hex {
    let mut v = x.to_bytes_le();
    v.resize(32, 0);
    hex(&v[..32])
}

pub fn scalar(rng: &mut Rng) -> Hex {
    let r = &fr().p;
    let k: BigUint = match rng.below(6) {
        0 => BigUint::from(1u32),
        1 => r - 1u32,
        2 => (r - 1u32) >> 1,
        _ => Fld::int_le(&rng.bytes(32)) % r,
    };
    le32(&k)
}

pub fn fq_value(rng: &mut Rng) -> Hex {
    let f = fq();
    let x: BigUint = match rng.below(10) {
        0 => BigUint::from(0u32),
        1 => BigUint::from(1u32),
        2 => &f.p - 1u32,
        3 => BigUint::from(rng.below(20)),
        4 => (&f.p - 1u32) >> 1,
        5 => simcore::decaf::zeta().clone(),
        _ => Fld::int_le(&rng.bytes(32)) % &f.p,
    };
    le32(&x)
}

pub fn esrc(rng: &mut Rng, c: &Corpus) -> ESrc {
    match rng.below(12) {
        0 => ESrc::Identity,
        1 => ESrc::Generator,
        2 => ESrc::Torsion2,
        3 => ESrc::MulGen(rng.below(9)),
        4 => ESrc::NegMulGen(scalar(rng)),
        5 => ESrc::MulNegGen(scalar(rng)),
        6 | 7 => ESrc::Decode(hex(&c.valid[rng.usize_below(c.valid.len())])),
        8 | 9 => ESrc::Elligator(fq_value(rng)),
        _ => ESrc::Mixed(fq_value(rng), rng.below(5)),
    }
}

/// Field elements offered as encodings: valid ones and the structured invalid ones.
pub fn encoding_value(rng: &mut Rng, c: &Corpus, invalid_rate: (u64, u64)) -> Hex {
    let f = fq();
    if !rng.chance(invalid_rate.0, invalid_rate.1) {
        return match rng.below(8) {
            0 => le32(&BigUint::from(0u32)),
            1 => hex(&c.valid[1]),
            _ => hex(&c.valid[rng.usize_below(c.valid.len())]),
        };
    }
    let v = &c.valid[rng.usize_below(c.valid.len())];
    let s = Fld::int_le(v);
    match rng.below(7) {
        0 => le32(&(&f.p - 1u32)),            // s = -1
        1 => le32(&f.neg(&s)),                // negative s
        2 => le32(&BigUint::from(1u32)),      // negative
        3 | 4 => hex(&c.nonsquare[rng.usize_below(c.nonsquare.len())]),
        5 => le32(&(&s + 1u32)),              // odd neighbour
        _ => {
            let x = Fld::int_le(&rng.bytes(32)) % &f.p;
            le32(&x)
        }
    }
}

fn mode(rng: &mut Rng) -> Mode {
    match rng.below(10) {
        0 | 1 => Mode::Constant,
        2 | 3 | 4 => Mode::Input,
        _ => Mode::Witness,
    }
}

fn ix(rng: &mut Rng) -> usize {
    rng.usize_below(64)
}

/// A history for C13: allocations first (so that later operations have
/// operands), then a seeded interleaving of forcing and computing operations.
pub fn history(rng: &mut Rng, c: &Corpus, deep: bool) -> Circuit {
    let mut ops = Vec::new();
    let nalloc = rng.range(2, 5);
    let invalid_rate = if rng.chance(1, 3) { (1, 3) } else { (0, 1) };
    for _ in 0..nalloc {
        ops.push(match rng.below(10) {
            0 | 1 | 2 | 3 => R1Op::AllocFq {
                mode: mode(rng),
                s: encoding_value(rng, c, invalid_rate),
            },
            4 | 5 | 6 => R1Op::AllocElem {
                mode: mode(rng),
                src: esrc(rng, c),
            },
            7 => R1Op::AllocAffine {
                mode: mode(rng),
                src: esrc(rng, c),
            },
            8 => R1Op::ConstantVar { src: esrc(rng, c) },
            _ => R1Op::ZeroVar,
        });
    }
    if rng.chance(2, 3) {
        ops.push(R1Op::AllocFqVar {
            mode: mode(rng),
            v: if rng.chance(1, 2) {
                encoding_value(rng, c, invalid_rate)
            } else {
                fq_value(rng)
            },
        });
    }
    if rng.chance(1, 2) {
        ops.push(R1Op::AllocBool {
            mode: mode(rng),
            v: rng.chance(1, 2),
        });
    }
    let n = if deep && rng.chance(1, 2) { rng.range(20, 60) } else { rng.range(3, 24) };
    // swarm: per-run weights of the three families
    let w_force = rng.range(1, 6);
    let w_comp = rng.range(1, 5);
    let w_alloc = rng.range(0, 2);
    for _ in 0..n {
        let op = match rng.weighted(&[w_force, w_comp, w_alloc]) {
            0 => match rng.below(10) {
                0 | 1 | 2 => R1Op::Compress(ix(rng)),
                3 | 4 | 5 => R1Op::Value(ix(rng)),
                6 => R1Op::CsOf(ix(rng)),
                7 | 8 => R1Op::CloneVar(ix(rng)),
                _ => {
                    if rng.chance(1, 2) {
                        R1Op::ToBits(ix(rng))
                    } else {
                        R1Op::ToBytes(ix(rng))
                    }
                }
            },
            1 => match rng.below(30) {
                0 => R1Op::Add(ix(rng), ix(rng)),
                1 => R1Op::AddRef(ix(rng), ix(rng)),
                2 => R1Op::Sub(ix(rng), ix(rng)),
                3 => R1Op::SubRef(ix(rng), ix(rng)),
                4 => R1Op::AddAssign(ix(rng), ix(rng)),
                5 => R1Op::AddAssignRef(ix(rng), ix(rng)),
                6 => R1Op::SubAssign(ix(rng), ix(rng)),
                7 => R1Op::SubAssignRef(ix(rng), ix(rng)),
                8 => R1Op::AddConst(ix(rng), esrc(rng, c)),
                9 => R1Op::SubConst(ix(rng), esrc(rng, c)),
                10 => R1Op::AddAssignConst(ix(rng), esrc(rng, c)),
                11 => R1Op::SubAssignConst(ix(rng), esrc(rng, c)),
                12 | 13 => R1Op::Negate(ix(rng)),
                14 => R1Op::Double(ix(rng)),
                15 => R1Op::Select(ix(rng), ix(rng), ix(rng)),
                16 => {
                    if rng.chance(1, 4) {
                        // long scalars: lengths around the limb and field sizes, odd lengths, a zero limb in the middle
                        let mut b = rng.bytes(66);
                        match rng.below(4) {
                            0 => b[8..16].iter_mut().for_each(|x| *x = 0),
                            1 => b.iter_mut().for_each(|x| *x = 0xff),
                            _ => {}
                        }
                        // wide scalars too (64-byte "wide reduction" inputs, to_bits_le of two field elements)
                        let n = *rng.pick(&[63u16, 64, 65, 127, 128, 129, 250, 251, 252, 253, 255, 256, 257, 264, 506, 512, 513]);
                        if n > 256 && rng.chance(1, 2) {
                            // exactly one set bit above 255
                            b.iter_mut().skip(32).for_each(|x| *x = 0);
                            b[(n as usize - 1) / 8] |= 1 << ((n as usize - 1) % 8);
                        }
                        R1Op::ScalarMulBits(ix(rng), hex(&b), n, rng.below(4) as u8)
                    } else {
                        R1Op::ScalarMul(ix(rng), rng.below(40) as u16, mode(rng))
                    }
                }
                17 => R1Op::IsEq(ix(rng), ix(rng)),
                18 => R1Op::IsZero(ix(rng)),
                19 => R1Op::EnforceEq(ix(rng), ix(rng)),
                20 => R1Op::EnforceNe(ix(rng), ix(rng)),
                21 => R1Op::CondEnforceEq(ix(rng), ix(rng), ix(rng)),
                22 => R1Op::CondEnforceNe(ix(rng), ix(rng), ix(rng)),
                23 | 24 => R1Op::Decompress(ix(rng)),
                25 => R1Op::Elligator(ix(rng)),
                26 => R1Op::Isqrt(ix(rng)),
                27 => R1Op::Abs(ix(rng)),
                28 => R1Op::IsNegative(ix(rng)),
                _ => R1Op::IsNonnegative(ix(rng)),
            },
            _ => match rng.below(4) {
                0 => R1Op::AllocFq {
                    mode: mode(rng),
                    s: encoding_value(rng, c, invalid_rate),
                },
                1 => R1Op::AllocElem {
                    mode: mode(rng),
                    src: esrc(rng, c),
                },
                2 => R1Op::AllocFqVar {
                    mode: mode(rng),
                    v: fq_value(rng),
                },
                _ => R1Op::AllocBool {
                    mode: mode(rng),
                    v: rng.chance(1, 2),
                },
            },
        };
        ops.push(op);
    }
    // the same element through its other coset representative, then an (in)equality gadget on the pair:
    // x + T2 where T2 = (0,-1) represents the identity
    if rng.chance(1, 3) {
        let i = ix(rng);
        ops.push(R1Op::CloneVar(i));
        ops.push(R1Op::AddConst(LAST, ESrc::Torsion2));
        // pool now ends with [.., clone of x, x + T2]; compare x + T2 with x (same index i as the clone's source)
        ops.push(match rng.below(6) {
            0 => R1Op::EnforceNe(i, LAST),
            1 => R1Op::EnforceEq(i, LAST),
            2 => R1Op::IsEq(LAST, i),
            3 => R1Op::CondEnforceNe(ix(rng), i, LAST),
            4 => R1Op::CondEnforceEq(ix(rng), LAST, i),
            _ => R1Op::EnforceNe(LAST, i),
        });
    }
    // P and -P allocated separately, summed, then the identity test: the sum is often the (0,-1) representative
    if rng.chance(1, 4) {
        let k = scalar(rng);
        let m = mode(rng);
        ops.push(R1Op::AllocElem { mode: m, src: ESrc::MulNegGen(k.clone()) });
        ops.push(R1Op::AllocElem { mode: mode(rng), src: ESrc::NegMulGen(k.clone()) });
        // NegMulGen(k) = -(kB), MulNegGen(k) = (-k)B: the same element; subtracting gives the identity class
        ops.push(R1Op::CloneVar(LAST));
        ops.push(R1Op::Negate(LAST));
        // last = -(-(kB)) = kB ; previous-but-two = (-k)B ; sum = identity, possibly as (0,-1)
        ops.push(R1Op::AddConst(LAST, ESrc::MulNegGen(k)));
        ops.push(R1Op::IsZero(LAST));
    }
    // table lookups (the provided power-of-two selection, or an override of it)
    if rng.chance(1, 8) {
        ops.push(R1Op::SelectTable {
            nbits: rng.range(1, 3) as u8,
            entries: rng.below(3) as u8,
            index: rng.below(8) as u8,
            bits: if rng.chance(1, 3) { Mode::Constant } else { Mode::Witness },
        });
    }
    // fixed-base history: the same constant base multiplied by a short scalar first and a longer one afterwards
    // (anything precomputed per base and sized by an earlier call shows only then)
    if rng.chance(1, 12) {
        ops.push(R1Op::ConstantVar { src: if rng.chance(1, 2) { ESrc::Generator } else { esrc(rng, c) } });
        let short = *rng.pick(&[1u16, 2, 5, 16, 64]);
        ops.push(R1Op::ScalarMulBits(LAST, hex(&rng.bytes(66)), short, rng.below(4) as u8));
        // the product is the newest entry now; the base is the one before it
        let mut b = rng.bytes(66);
        let long = *rng.pick(&[65u16, 128, 251, 253, 256, 257, 512]);
        b[(long as usize - 1) / 8] |= 1 << ((long as usize - 1) % 8);
        ops.push(R1Op::ScalarMulBits(LAST - 1, hex(&b), long, rng.below(4) as u8));
        ops.push(R1Op::Compress(LAST));
    }
    let nd = rng.range(0, 2) as usize;
    let digest_steps = (0..nd).map(|_| rng.usize_below(ops.len())).collect();
    // last of all (it ends the judged part of the history): an allocation whose value closure fails
    if rng.chance(1, 15) {
        ops.push(R1Op::AllocFailing {
            mode: if rng.chance(1, 2) { Mode::Input } else { Mode::Witness },
            affine: rng.chance(1, 3),
        });
    }
    Circuit {
        ops,
        hints: vec![],
        enc_hints: vec![],
        digest_steps,
        reorder_seed: if rng.chance(2, 3) { rng.next_u64() | 1 } else { 0 },
        tamper_bits: false,
        tamper_free: false,
    }
}

pub fn ychoice(rng: &mut Rng) -> YChoice {
    match rng.below(12) {
        0 => YChoice::Honest,
        1 => YChoice::NegHonest,
        2 => YChoice::Zero,
        3 => YChoice::One,
        4 => YChoice::MinusOne,
        5 => YChoice::SqrtInv(false),
        6 => YChoice::SqrtInv(true),
        7 => YChoice::SqrtZetaInv(false),
        8 => YChoice::SqrtZetaInv(true),
        9 => YChoice::ZetaHonest,
        _ => YChoice::Random(fq_value(rng)),
    }
}

pub fn all_ychoices() -> Vec<YChoice> {
    vec![
        YChoice::Honest,
        YChoice::NegHonest,
        YChoice::Zero,
        YChoice::One,
        YChoice::MinusOne,
        YChoice::SqrtInv(false),
        YChoice::SqrtInv(true),
        YChoice::SqrtZetaInv(false),
        YChoice::SqrtZetaInv(true),
        YChoice::ZetaHonest,
        YChoice::Random("1234567890abcdef1234567890abcdef1234567890abcdef1234567890abcd01".into()),
    ]
}

pub fn offer(rng: &mut Rng, c: &Corpus) -> Offer {
    match rng.below(10) {
        0 | 1 => Offer::Honest(esrc(rng, c)),
        2 => Offer::Raw {
            x: fq_value(rng),
            y: fq_value(rng),
        },
        3 | 4 => Offer::PlusT4(esrc(rng, c)),
        5 | 6 => Offer::SameRatioSibling(esrc(rng, c)),
        7 => Offer::OtherCoset(esrc(rng, c)),
        8 => {
            if rng.chance(1, 2) {
                Offer::T2
            } else {
                Offer::Scaled(esrc(rng, c), rng.range(2, 9))
            }
        }
        _ => Offer::Zero00,
    }
}

pub fn enc_sub(rng: &mut Rng, c: &Corpus) -> EncSub {
    match rng.below(6) {
        0 | 1 => EncSub::Honest,
        2 => EncSub::EncodeOf(esrc(rng, c)),
        3 => EncSub::NegHonest,
        _ => EncSub::Raw(encoding_value(rng, c, (2, 3))),
    }
}

/// A small circuit for C14: 1-6 gadget operations plus a multi-site hint plan.
pub fn adversarial(rng: &mut Rng, c: &Corpus) -> Circuit {
    let mut ops = Vec::new();
    let n = rng.range(1, 6);
    // constants too (one in eight): "an invalid encoding is never decoded in-circuit" has no exception for
    // circuit parameters, and a failed use of one must not leave anything usable behind
    let m = |rng: &mut Rng| match rng.below(8) {
        0 | 1 => Mode::Input,
        2 => Mode::Constant,
        _ => Mode::Witness,
    };
    for _ in 0..n {
        match rng.below(12) {
            0 | 1 | 2 => {
                // in-circuit decode of a field element, directly or through a lazy variable
                let s = encoding_value(rng, c, (1, 2));
                if rng.chance(1, 2) {
                    ops.push(R1Op::AllocFqVar { mode: m(rng), v: s });
                    ops.push(R1Op::Decompress(ix(rng)));
                } else {
                    ops.push(R1Op::AllocFq { mode: m(rng), s });
                    if rng.chance(1, 4) {
                        // a use that may fail, then a retry on the same variable
                        let i = ix(rng);
                        ops.push(R1Op::Value(i));
                        ops.push(R1Op::Value(i));
                    }
                    ops.push(match rng.below(5) {
                        0 => R1Op::Value(ix(rng)),
                        1 => R1Op::Negate(ix(rng)),
                        2 => R1Op::IsEq(ix(rng), ix(rng)),
                        3 => R1Op::AddConst(ix(rng), ESrc::Generator),
                        _ => R1Op::CsOf(ix(rng)),
                    });
                }
            }
            3 | 4 => {
                let o = offer(rng, c);
                ops.push(if rng.chance(1, 3) { R1Op::WitnessOfferAffine { offer: o } } else { R1Op::WitnessOffer { offer: o } });
                if rng.chance(1, 2) {
                    ops.push(R1Op::Compress(ix(rng)));
                }
            }
            5 => {
                ops.push(R1Op::AllocElem {
                    mode: m(rng),
                    src: esrc(rng, c),
                });
                ops.push(R1Op::Compress(ix(rng)));
            }
            6 | 7 => {
                ops.push(R1Op::AllocFqVar {
                    mode: m(rng),
                    v: fq_value(rng),
                });
                ops.push(R1Op::Elligator(ix(rng)));
                if rng.chance(1, 2) {
                    ops.push(R1Op::Compress(ix(rng)));
                }
            }
            8 | 9 => {
                ops.push(R1Op::AllocFqVar {
                    mode: m(rng),
                    v: fq_value(rng),
                });
                ops.push(R1Op::Isqrt(ix(rng)));
            }
            10 => {
                ops.push(R1Op::AllocFqVar {
                    mode: m(rng),
                    v: fq_value(rng),
                });
                ops.push(match rng.below(3) {
                    0 => R1Op::Abs(ix(rng)),
                    1 => R1Op::IsNegative(ix(rng)),
                    _ => R1Op::IsNonnegative(ix(rng)),
                });
            }
            _ if rng.chance(1, 3) => {
                // first use of two encoding-state variables is a selection (or an equality): the operand that is
                // not selected must be validated all the same
                let s1 = encoding_value(rng, c, (1, 2));
                let s2 = encoding_value(rng, c, (1, 2));
                ops.push(R1Op::AllocFq { mode: m(rng), s: s1 });
                ops.push(R1Op::AllocFq { mode: m(rng), s: s2 });
                ops.push(R1Op::AllocBool { mode: if rng.chance(1, 4) { Mode::Constant } else { Mode::Witness }, v: rng.chance(1, 2) });
                ops.push(R1Op::Select(LAST, LAST - 1, LAST));
                if rng.chance(1, 2) {
                    ops.push(R1Op::Compress(LAST));
                }
            }
            _ if rng.chance(1, 3) => {
                // first (and only) use of an encoding-state variable is as the right-hand side of an operator
                let s1 = encoding_value(rng, c, (1, 2));
                ops.push(R1Op::AllocElem { mode: m(rng), src: esrc(rng, c) });
                ops.push(R1Op::AllocFq { mode: if rng.chance(1, 2) { Mode::Constant } else { m(rng) }, s: s1 });
                ops.push(match rng.below(6) {
                    0 => R1Op::AddAssign(LAST - 1, LAST),
                    1 => R1Op::SubAssign(LAST - 1, LAST),
                    2 => R1Op::AddAssignRef(LAST - 1, LAST),
                    3 => R1Op::SubAssignRef(LAST - 1, LAST),
                    4 => R1Op::AddRef(LAST - 1, LAST),
                    _ => R1Op::SubRef(LAST - 1, LAST),
                });
            }
            _ if rng.chance(1, 2) => {
                ops.push(R1Op::AllocUnchecked { offer: offer(rng, c) });
                ops.push(R1Op::IsEq(ix(rng), LAST));
            }
            _ => {
                let (i, j) = (ix(rng), ix(rng));
                ops.push(match rng.below(6) {
                    0 | 1 => R1Op::Add(i, j),
                    2 => R1Op::AddAssign(i, j),
                    3 => R1Op::SubAssign(i, j),
                    4 => R1Op::AddAssignRef(i, j),
                    _ => R1Op::SubAssignRef(i, j),
                });
                ops.push(R1Op::Compress(ix(rng)));
            }
        }
    }
    // hint plan: most sites honest, a few substituted
    let nsites = 8;
    let mut hints = Vec::new();
    let density = rng.range(1, 4);
    for _ in 0..nsites {
        if rng.chance(density, 5) {
            hints.push(HintSub {
                flag: match rng.below(3) {
                    0 => None,
                    1 => Some(true),
                    _ => Some(false),
                },
                y: ychoice(rng),
            });
        } else {
            hints.push(HintSub::honest());
        }
    }
    let enc_hints = (0..3).map(|_| enc_sub(rng, c)).collect();
    Circuit {
        ops,
        hints,
        enc_hints,
        digest_steps: vec![],
        reorder_seed: 0,
        tamper_bits: rng.chance(1, 12),
        tamper_free: rng.chance(1, 12),
    }
}
