// (included into exec.rs) The witness-tampering prover.
//
// The prover owns the whole witness vector, not only the values a gadget asks
// for through its hints. After synthesis this prover edits the assignment
// directly (`ConstraintSystem::witness_assignment` is a public field, no hook
// is needed), repairs the witnesses that are *defined* by constraints, and
// re-evaluates the constraint matrices itself (the library's `is_satisfied`
// caches the values of linear combinations and would judge a stale system).
//
// Two kinds of edits:
//  * bit decompositions: every window of 253 consecutive boolean witnesses
//    bound by a packing constraint, whose value v has v + q < 2^253, is
//    replaced by the bits of v + q (same field element, opposite parity);
//  * free booleans: every other boolean witness is flipped, one at a time,
//    and the witnesses allocated after it are repaired constraint by
//    constraint (the most recently allocated variable of a violated
//    constraint is re-solved). A boolean that is properly bound by constraints
//    cannot be flipped this way; one that is merely *witnessed* can.
//
// A tampered assignment counts only if it satisfies every row of A, B, C; then
// the relations that do not depend on values cached inside `FpVar`s are judged.

struct Mat {
    a: Vec<Vec<(Fq, usize)>>,
    b: Vec<Vec<(Fq, usize)>>,
    c: Vec<Vec<(Fq, usize)>>,
    ni: usize,
}

impl Mat {
    fn build(cs: &ConstraintSystemRef<Fq>) -> Option<Mat> {
        let inner = cs.borrow()?.clone();
        let copy = ConstraintSystemRef::new(inner);
        copy.finalize();
        let m = copy.to_matrices()?;
        Some(Mat {
            a: m.a,
            b: m.b,
            c: m.c,
            ni: m.num_instance_variables,
        })
    }
    fn eval(row: &[(Fq, usize)], z: &[Fq]) -> Fq {
        let mut acc = Fq::from(0u64);
        for (coeff, col) in row {
            acc += *coeff * z[*col];
        }
        acc
    }
    fn row_ok(&self, k: usize, z: &[Fq]) -> bool {
        Self::eval(&self.a[k], z) * Self::eval(&self.b[k], z) == Self::eval(&self.c[k], z)
    }
    fn sat(&self, z: &[Fq]) -> bool {
        (0..self.a.len()).all(|k| self.row_ok(k, z))
    }
    /// Starts (witness indices) of real bit decompositions: rows of C carrying 1, 2, 4, ... on 253 consecutive witness columns.
    fn packing_starts(&self, nbits: usize) -> Vec<usize> {
        let one = Fq::from(1u64);
        let mut pow2 = Vec::with_capacity(nbits);
        let mut p = one;
        for _ in 0..nbits {
            pow2.push(p);
            p = p + p;
        }
        let mut v = Vec::new();
        for row in self.c.iter().filter(|r| r.len() >= nbits) {
            let map: BTreeMap<usize, Fq> = row.iter().filter(|(_, c)| *c >= self.ni).map(|(f, c)| (*c - self.ni, *f)).collect();
            for (col, coeff) in map.iter() {
                if *coeff == one && (1..nbits).all(|i| map.get(&(col + i)) == Some(&pow2[i])) {
                    v.push(*col);
                }
            }
        }
        v.sort();
        v.dedup();
        v
    }
    /// Witness indices with a booleanity constraint (1 - b) * b = 0.
    fn booleans(&self) -> Vec<usize> {
        let one = Fq::from(1u64);
        let mut v = Vec::new();
        for k in 0..self.a.len() {
            if !self.c[k].is_empty() || self.b[k].len() != 1 || self.a[k].len() != 2 {
                continue;
            }
            let (bc, bcol) = self.b[k][0];
            if bc != one || bcol < self.ni {
                continue;
            }
            let has_one = self.a[k].iter().any(|(f, c)| *c == 0 && *f == one);
            let has_neg = self.a[k].iter().any(|(f, c)| *c == bcol && *f == -one);
            if has_one && has_neg {
                v.push(bcol - self.ni);
            }
        }
        v.sort();
        v.dedup();
        v
    }
    /// Repairs, in constraint order, every violated row by re-solving its most recently allocated
    /// witness (index > `after`), when that witness occurs in exactly one of the three rows.
    fn repair(&self, z: &mut [Fq], after_col: usize) {
        let zero = Fq::from(0u64);
        for k in 0..self.a.len() {
            if self.row_ok(k, z) {
                continue;
            }
            let h = self.a[k]
                .iter()
                .chain(self.b[k].iter())
                .chain(self.c[k].iter())
                .map(|(_, c)| *c)
                .max()
                .unwrap_or(0);
            if h <= after_col || h < self.ni {
                continue;
            }
            let coef = |row: &[(Fq, usize)]| row.iter().filter(|(_, c)| *c == h).fold(zero, |s, (f, _)| s + *f);
            let (ca, cb, cc) = (coef(&self.a[k]), coef(&self.b[k]), coef(&self.c[k]));
            let (va, vb, vc) = (
                Self::eval(&self.a[k], z),
                Self::eval(&self.b[k], z),
                Self::eval(&self.c[k], z),
            );
            let old = z[h];
            if cc != zero && ca == zero && cb == zero {
                // A*B = C with C = rest + cc*h
                z[h] = (va * vb - (vc - cc * old)) * cc.inverse().unwrap();
            } else if cb != zero && ca == zero && cc == zero && va != zero {
                // A * (rest + cb*h) = C
                z[h] = (vc * va.inverse().unwrap() - (vb - cb * old)) * cb.inverse().unwrap();
            } else if ca != zero && cb == zero && cc == zero && vb != zero {
                z[h] = (vc * vb.inverse().unwrap() - (va - ca * old)) * ca.inverse().unwrap();
            }
        }
    }
}

fn full_assignment(cs: &ConstraintSystemRef<Fq>) -> Option<(Vec<Fq>, usize)> {
    let b = cs.borrow()?;
    let mut z = b.instance_assignment.clone();
    let ni = z.len();
    z.extend_from_slice(&b.witness_assignment);
    Some((z, ni))
}

fn install_witness(cs: &ConstraintSystemRef<Fq>, z: &[Fq], ni: usize) {
    if let Some(mut b) = cs.borrow_mut() {
        let n = b.witness_assignment.len();
        b.witness_assignment.copy_from_slice(&z[ni..ni + n]);
    }
}

/// Live value of a field variable that is a plain witness / instance variable (not a cached copy).
fn live_f(w: &World, id: Id) -> Option<Fq> {
    if let Id::F(k) = id {
        match &w.fs.get(&k)?.var {
            ark_r1cs_std::fields::fp::FpVar::Var(a) => match a.variable {
                ark_relations::r1cs::Variable::Witness(_) | ark_relations::r1cs::Variable::Instance(_) => {
                    w.cs.assigned_value(a.variable)
                }
                _ => None,
            },
            ark_r1cs_std::fields::fp::FpVar::Constant(c) => Some(*c),
        }
    } else {
        None
    }
}

/// Relations that can be judged on a tampered assignment without trusting cached values.
fn judge_tampered(w: &mut World, sites: &[Site], tag: &'static str) {
    w.tamper_tag = Some(tag);
    let rels = std::mem::take(&mut w.rels);
    for rel in rels.iter() {
        match rel {
            Rel::Decode { s, via, site_from, .. } => {
                if native_decode(s).is_none() {
                    let hk = decode_site_class(s, *site_from, sites);
                    let cls = s_class(s);
                    w.viol(
                        "C14",
                        "sat_but_native_rejects",
                        format!("gadget=decode;input={};hint=({})", cls, hk),
                        format!(
                            "s = {} is decoded (reached via {}) in a system that a witness-rewriting prover satisfies, although the native decoder rejects it ({})",
                            hex(&s.to_bytes_le()),
                            via,
                            cls
                        ),
                    );
                }
            }
            Rel::Isqrt { inp, flag, y, .. } => {
                if let (Some(x), Some(b), Some(yv)) = (live_f(w, *inp), val_b(w, *flag), live_f(w, *y)) {
                    if let Err(why) = rd::check_sqrt_ratio(
                        &BigUint::from(1u32),
                        &bridge::fq_to_big(&x),
                        b,
                        &bridge::fq_to_big(&yv),
                    ) {
                        w.viol(
                            "C14",
                            "sat_but_output_differs",
                            format!("gadget=isqrt;input={}", if x.is_zero() { "zero" } else { "nonzero" }),
                            format!("isqrt({}) = ({}, {}) satisfies the constraints: {}", hex(&x.to_bytes_le()), b, hex(&yv.to_bytes_le()), why),
                        );
                    }
                }
            }
            Rel::Sign { inp, out, what } => {
                if let (Some(x), Some(b)) = (live_f(w, *inp), val_b(w, *out)) {
                    let want = is_neg(&x) == (*what == "is_negative");
                    if b != want {
                        w.viol(
                            "C14",
                            "sat_but_output_differs",
                            format!("gadget={}", what),
                            format!("{}({}) = {}", what, hex(&x.to_bytes_le()), b),
                        );
                    }
                }
            }
            _ => {}
        }
        if !w.out.viols.is_empty() {
            break;
        }
    }
    w.rels = rels;
    w.tamper_tag = None;
}

fn tamper_phase(w: &mut World, c: &Circuit, sites: &[Site]) {
    const NBITS: usize = 253;
    let mat = match Mat::build(&w.cs) {
        Some(m) => m,
        None => return,
    };
    let (z0, ni) = match full_assignment(&w.cs) {
        Some(x) => x,
        None => return,
    };
    if ni != mat.ni || z0.len() < ni {
        return;
    }
    let zero = Fq::from(0u64);
    let one = Fq::from(1u64);
    let q = &simcore::field::fq().p;
    let limit = BigUint::from(1u32) << NBITS;
    let starts = mat.packing_starts(NBITS);
    let nw = z0.len() - ni;
    let mut tried_bits = 0u64;
    let mut tried_flips = 0u64;
    // (1) bit decompositions -> v + q
    if c.tamper_bits {
        for &k in &starts {
            if k + NBITS > nw || !(0..NBITS).all(|i| z0[ni + k + i] == zero || z0[ni + k + i] == one) {
                continue;
            }
            let mut v = BigUint::from(0u32);
            for i in (0..NBITS).rev() {
                v = (v << 1) + BigUint::from((z0[ni + k + i] == one) as u32);
            }
            let alt = &v + q;
            if !(v < *q && alt < limit) {
                continue;
            }
            tried_bits += 1;
            let mut z = z0.clone();
            for i in 0..NBITS {
                z[ni + k + i] = if alt.bit(i as u64) { one } else { zero };
            }
            if mat.sat(&z) {
                w.fault("bit_decomposition_rewritten_system_still_satisfied");
                install_witness(&w.cs, &z, ni);
                judge_tampered(w, sites, "noncanonical_bits");
                install_witness(&w.cs, &z0, ni);
                if !w.out.viols.is_empty() {
                    break;
                }
            }
        }
    }
    // (2) free booleans
    if c.tamper_free && w.out.viols.is_empty() {
        let in_window = |j: usize| starts.iter().any(|s| j >= *s && j < *s + NBITS);
        // the squareness flag of a hint site is already enumerated by the hint plans (both values x every y)
        let is_hint_flag = |j: usize| sites.iter().any(|s| s.4 == j);
        for j in mat.booleans() {
            if in_window(j) || is_hint_flag(j) || j >= nw {
                continue;
            }
            tried_flips += 1;
            let mut z = z0.clone();
            z[ni + j] = if z[ni + j] == one { zero } else { one };
            mat.repair(&mut z, ni + j);
            if z != z0 && mat.sat(&z) {
                w.fault("boolean_witness_flipped_system_still_satisfied");
                install_witness(&w.cs, &z, ni);
                judge_tampered(w, sites, "flipped_boolean");
                install_witness(&w.cs, &z0, ni);
                if !w.out.viols.is_empty() {
                    break;
                }
            }
        }
    }
    // (3) outputs that are plain witnesses: a gadget's output must be pinned by constraints; add 1 to it, repair
    //     what is defined afterwards, and see whether the system still holds
    let mut tried_out = 0u64;
    if c.tamper_free && w.out.viols.is_empty() {
        let mut outs: Vec<(usize, &'static str)> = Vec::new();
        for rel in w.rels.iter() {
            let (id, what) = match rel {
                Rel::Encode { out, .. } => (*out, "encode"),
                Rel::Abs { out, .. } => (*out, "abs"),
                _ => continue,
            };
            if let Id::F(k) = id {
                if let Some(fv) = w.fs.get(&k) {
                    if let ark_r1cs_std::fields::fp::FpVar::Var(a) = &fv.var {
                        if let ark_relations::r1cs::Variable::Witness(j) = a.variable {
                            outs.push((j, what));
                        }
                    }
                }
            }
        }
        for (j, what) in outs {
            if j >= nw {
                continue;
            }
            tried_out += 1;
            let mut z = z0.clone();
            z[ni + j] += one;
            mat.repair(&mut z, ni + j);
            if mat.sat(&z) {
                w.fault("output_witness_changed_system_still_satisfied");
                w.tamper_tag = Some("output_witness_plus_one");
                w.viol(
                    "C14",
                    "sat_but_output_differs",
                    format!("gadget={}", what),
                    format!(
                        "the witness holding the output of {} can be changed (value + 1) and every constraint still holds: the output is not bound to its input",
                        what
                    ),
                );
                w.tamper_tag = None;
                break;
            }
        }
    }
    if tried_out > 0 {
        *w.out.probes.entry("output_witnesses_perturbed").or_insert(0) += tried_out;
        w.out.nontrivial = true;
    }
    if tried_bits > 0 {
        *w.out.probes.entry("bit_decomposition_windows_rewritten").or_insert(0) += tried_bits;
    }
    if tried_flips > 0 {
        *w.out.probes.entry("boolean_witnesses_flipped").or_insert(0) += tried_flips;
    }
    if tried_bits + tried_flips > 0 {
        w.out.nontrivial = true;
    }
    w.out.steps += tried_bits + tried_flips;
}
