//! Options shared by the engines, start-up self-tests, child-process replay.

use std::path::{Path, PathBuf};

#[derive(Clone, Debug)]
pub struct Opts {
    pub tier: String,
    pub seed: u64,
    pub runs: Option<u64>,
    pub max_seconds: Option<f64>,
    pub evidence_dir: PathBuf,
    pub replay_dir: PathBuf,
    pub known_path: PathBuf,
    pub dump_digest: Option<PathBuf>,
    /// second pass by another build of the same harness (debug assertions and overflow checks on): a
    /// quarter of the seeded runs, and the result is added to the evidence file the first pass wrote
    pub amend_evidence: bool,
}

/// Which configuration of the code under test this binary was built with.
pub fn build_name() -> &'static str {
    if cfg!(debug_assertions) {
        "checked"
    } else {
        "release"
    }
}

impl Opts {
    pub fn evidence_path(&self, prop: &str) -> PathBuf {
        self.evidence_dir.join(format!("{}.json", prop))
    }
}

pub fn self_tests() -> Result<(), String> {
    simcore::field::self_test()?;
    simcore::decaf::self_test()?;
    crate::bridge::self_test()?;
    Ok(())
}

/// Re-executes a replay file in a fresh process of this binary.
/// Ok(true) = reproduced (child exit 1), Ok(false) = did not reproduce.
pub fn replay_in_child(engine: &str, path: &Path) -> Result<bool, String> {
    let exe = std::env::current_exe().map_err(|e| e.to_string())?;
    let out = std::process::Command::new(exe)
        .arg(engine)
        .arg("--replay")
        .arg(path)
        .arg("--quiet")
        .output()
        .map_err(|e| format!("cannot spawn replay child: {}", e))?;
    match out.status.code() {
        Some(1) => Ok(true),
        Some(0) => Ok(false),
        other => Err(format!(
            "replay child exited with {:?}: {}",
            other,
            String::from_utf8_lossy(&out.stderr)
        )),
    }
}

/// Silences the default panic message for panics the harness catches on
/// purpose; real harness panics still abort with exit code 2 through main.
pub fn install_quiet_panic_hook() {
    std::panic::set_hook(Box::new(|_| {}));
}
