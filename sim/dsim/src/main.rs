//! dsim: deterministic simulation engines for decaf377 that run single-threaded
//! simulated worlds (iosim: C02 C03 C06 C11; r1csim: C13 C14).
mod bridge;
mod common;
mod edge;
mod io;
mod r1;

use common::Opts;
use std::path::PathBuf;

fn usage() -> ! {
    eprintln!(
        "usage: dsim <io|r1cs> --prop <ID> [--tier quick|thorough] [--seed N] [--runs N] [--max-seconds S]\n\
         \x20      dsim <io|r1cs> --replay FILE [--quiet]"
    );
    std::process::exit(simcore::EXIT_HARNESS)
}

fn main() {
    let args: Vec<String> = std::env::args().skip(1).collect();
    if args.is_empty() {
        usage();
    }
    let engine = args[0].clone();
    if engine == "edge" {
        let mode = args.iter().position(|a| a == "--mode").and_then(|i| args.get(i + 1)).cloned().unwrap_or_default();
        std::process::exit(edge::main(&mode));
    }
    if engine == "vectors" {
        // reference vectors for the cross-target conversions pass (tools/cross_target.py): computed by the
        // BigUint reference model only, one per line
        use num_bigint::BigUint;
        use simcore::decaf as rd;
        use simcore::digest::hex;
        let f = simcore::field::fq();
        for k in [0u64, 1, 2, 3, 4, 5, 6, 7, 8, (1 << 20) + 3] {
            let p = rd::scalar_mul(&BigUint::from(k), rd::generator());
            println!("V:{}:{}", hex(&rd::encode(&p).expect("encode")), k);
        }
        let le = |x: &BigUint| {
            let mut v = x.to_bytes_le();
            v.resize(32, 0);
            hex(&v)
        };
        println!("I:{}", le(&f.p));
        println!("I:{}", le(&(&f.p - 1u32)));
        println!("I:{}", le(&(&f.p + 8u32)));
        println!("I:{}", le(&(&f.p - 8u32)));
        println!("I:{}", le(&BigUint::from(9u32)));
        println!("I:{}", hex(&[0xffu8; 32]));
        let mut hb = [0u8; 32];
        hb[0] = 8;
        hb[31] = 0x20;
        println!("I:{}", hex(&hb));
        let corpus = io::gen::Corpus::build(0xC0FFEE);
        println!("I:{}", hex(&corpus.nonsquare[0]));
        std::process::exit(0);
    }
    let mut prop: Option<String> = None;
    let mut replay: Option<PathBuf> = None;
    let mut quiet = false;
    let verif = PathBuf::from(std::env::var("VERIF_DIR").unwrap_or_else(|_| "/verif".into()));
    let mut opts = Opts {
        tier: std::env::var("VERIF_TIER").unwrap_or_else(|_| "quick".into()),
        seed: std::env::var("VERIF_SEED")
            .ok()
            .and_then(|s| s.parse().ok())
            .unwrap_or(simcore::prng::DEFAULT_SEED),
        runs: None,
        max_seconds: None,
        evidence_dir: verif.join("evidence"),
        replay_dir: verif.join("replays"),
        known_path: verif.join("known_findings.txt"),
        dump_digest: None,
        amend_evidence: false,
    };
    let mut i = 1;
    while i < args.len() {
        let a = args[i].as_str();
        let mut val = || {
            i += 1;
            args.get(i).cloned().unwrap_or_else(|| usage())
        };
        match a {
            "--prop" => prop = Some(val()),
            "--tier" => opts.tier = val(),
            "--seed" => opts.seed = val().parse().unwrap_or_else(|_| usage()),
            "--runs" => opts.runs = Some(val().parse().unwrap_or_else(|_| usage())),
            "--max-seconds" => opts.max_seconds = Some(val().parse().unwrap_or_else(|_| usage())),
            "--replay" => replay = Some(PathBuf::from(val())),
            "--evidence-dir" => opts.evidence_dir = PathBuf::from(val()),
            "--replay-dir" => opts.replay_dir = PathBuf::from(val()),
            "--known" => opts.known_path = PathBuf::from(val()),
            "--dump-digest" => opts.dump_digest = Some(PathBuf::from(val())),
            "--quiet" => quiet = true,
            "--amend-evidence" => opts.amend_evidence = true,
            _ => usage(),
        }
        i += 1;
    }
    if opts.tier != "quick" && opts.tier != "thorough" {
        usage();
    }
    if std::env::var_os("VERIF_PANIC_VERBOSE").is_none() {
        common::install_quiet_panic_hook();
    }
    let code = std::panic::catch_unwind(|| match (engine.as_str(), &replay, &prop) {
        ("io", Some(p), _) => io::replay(p, quiet),
        ("io", None, Some(p)) if ["C02", "C03", "C06", "C11"].contains(&p.as_str()) => {
            io::run_check(p, &opts)
        }
        ("r1cs", Some(p), _) => r1::replay(p, quiet),
        ("r1cs", None, Some(p)) if ["C13", "C14"].contains(&p.as_str()) => r1::run_check(p, &opts),
        _ => {
            eprintln!("HARNESS-ERROR: unknown engine/property combination");
            simcore::EXIT_HARNESS
        }
    });
    match code {
        Ok(c) => std::process::exit(c),
        Err(_) => {
            eprintln!("HARNESS-ERROR: the harness itself panicked");
            std::process::exit(simcore::EXIT_HARNESS)
        }
    }
}
