fn main() {}
