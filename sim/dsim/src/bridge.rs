//! Bridge between crate values and the reference model.
//!
//! Uses only `to_bytes_le`, `AffineRepr::xy` and `Element -> AffinePoint`.
//! These accessors are in the trusted base of the io engine and are
//! cross-checked at start-up (and in every run that carries scalar tags) on
//! k*B for reference-computed k.

use ark_ec::AffineRepr;
use decaf377::{Element, Fp, Fq, Fr};
use num_bigint::BigUint;
use simcore::decaf::Pt;
use std::panic::{catch_unwind, AssertUnwindSafe};

pub type AffinePoint = <Element as ark_ec::CurveGroup>::Affine;

pub fn fq_to_big(x: &Fq) -> BigUint {
    BigUint::from_bytes_le(&x.to_bytes_le())
}
pub fn fr_to_big(x: &Fr) -> BigUint {
    BigUint::from_bytes_le(&x.to_bytes_le())
}
pub fn fp_to_big(x: &Fp) -> BigUint {
    BigUint::from_bytes_le(&x.to_bytes_le())
}

/// Build an Fq from a reference integer (workload inputs only).
pub fn big_to_fq(b: &BigUint) -> Fq {
    let mut v = (b % &simcore::field::fq().p).to_bytes_le();
    v.resize(32, 0);
    let mut a = [0u8; 32];
    a.copy_from_slice(&v);
    Fq::from_bytes_checked(&a).expect("reduced value is canonical")
}
pub fn big_to_fr(b: &BigUint) -> Fr {
    let mut v = (b % &simcore::field::fr().p).to_bytes_le();
    v.resize(32, 0);
    let mut a = [0u8; 32];
    a.copy_from_slice(&v);
    Fr::from_bytes_checked(&a).expect("reduced value is canonical")
}

pub fn affine_to_pt(a: &AffinePoint) -> Pt {
    match a.xy() {
        Some((x, y)) => Pt {
            x: fq_to_big(x),
            y: fq_to_big(y),
        },
        None => simcore::decaf::identity(),
    }
}

/// `None` if the conversion panics (e.g. Z = 0 on a corrupted element).
pub fn elem_to_pt(e: &Element) -> Option<Pt> {
    let e = *e;
    catch_unwind(AssertUnwindSafe(move || {
        let a: AffinePoint = e.into();
        affine_to_pt(&a)
    }))
    .ok()
}

pub fn pt_hex(p: &Pt) -> String {
    format!("({:x},{:x})", p.x, p.y)
}

/// Start-up cross-check of the bridge: k*B computed by the crate, read through
/// the bridge, must be the reference's k*B (as the same decaf element, and on
/// the curve) for reference-computed k.
pub fn self_test() -> Result<(), String> {
    use simcore::decaf as rd;
    let g = Element::GENERATOR;
    let gp = elem_to_pt(&g).ok_or("bridge panicked on generator")?;
    if gp != *rd::generator() {
        return Err(format!(
            "bridge: crate generator {} != reference generator {}",
            pt_hex(&gp),
            pt_hex(rd::generator())
        ));
    }
    let r = &simcore::field::fr().p;
    let ks: Vec<BigUint> = vec![
        BigUint::from(0u32),
        BigUint::from(1u32),
        BigUint::from(2u32),
        r - 1u32,
        BigUint::parse_bytes(b"123456789123456789123456789123456789", 10).unwrap(),
    ];
    for k in ks {
        let e = g * big_to_fr(&k);
        let got = elem_to_pt(&e).ok_or("bridge panicked")?;
        let want = rd::scalar_mul(&k, rd::generator());
        if !rd::on_curve(&got) || !rd::equal(&got, &want) {
            // The accessors were validated on the generator above; a disagreement here is the library's scalar
            // multiplication against the reference group law (C05, not claimed by these engines). It is said
            // once and the claimed checks go on: each of them compares against the reference on its own.
            eprintln!(
                "note: start-up cross-check: the library's {}*B disagrees with the reference group law; continuing",
                k
            );
            break;
        }
    }
    Ok(())
}
