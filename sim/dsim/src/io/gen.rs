//! Seeded generation of runs (workload + fault plan), swarm style: every run
//! redraws its sizes, record mix, enabled fault kinds and fault rates.
//! All randomness comes from the `Rng` passed in; the reference model is used
//! to build structurally interesting inputs (valid encodings, near misses).

use super::model::*;
use super::seams::*;
use super::wire::fld;
use num_bigint::BigUint;
use simcore::decaf as rd;
use simcore::digest::hex;
use simcore::field::{fq, fr, Fld};
use simcore::prng::Rng;

/// Inputs computed once per process by the reference model only.
pub struct Corpus {
    /// canonical encodings of valid elements (reference-generated)
    pub valid: Vec<[u8; 32]>,
    /// even, canonical s whose discriminant is a non-square
    pub nonsquare: Vec<[u8; 32]>,
    /// valid encodings at the edges of the range: the largest valid s below q
    /// (top limb equal to the modulus' top limb) and the smallest ones above 0
    pub boundary_valid: Vec<[u8; 32]>,
    /// strings whose top 64-bit limb equals the modulus' top limb: valid encodings in that band, and
    /// aliases s + q of small valid s (non-canonical, but a limb-wise range check may let them through)
    pub band: Vec<[u8; 32]>,
    /// canonical strings whose field element has structured Montgomery limbs (all-ones / zero limbs and
    /// half-limbs); about half are valid encodings
    pub mont: Vec<[u8; 32]>,
    seed: u64,
    /// built on first use (root finding costs about a second): see `table_probe`
    table_probe: std::sync::OnceLock<Vec<[u8; 32]>>,
}

fn arr32(v: &[u8]) -> [u8; 32] {
    let mut a = [0u8; 32];
    a[..v.len().min(32)].copy_from_slice(&v[..v.len().min(32)]);
    a
}

impl Corpus {
    pub fn build(seed: u64) -> Corpus {
        let f = fq();
        let mut rng = Rng::new(simcore::prng::sub_seed(seed, "corpus"));
        let mut valid = Vec::new();
        let mut acc = rd::identity();
        for _ in 0..24 {
            valid.push(rd::encode(&acc).expect("encode"));
            acc = rd::add(&acc, rd::generator());
        }
        let mut nonsquare = Vec::new();
        while valid.len() < 72 || nonsquare.len() < 16 {
            let mut b = rng.array32();
            b[31] &= 0x1f;
            b[0] &= 0xfe;
            let s = Fld::int_le(&b);
            if s >= f.p {
                continue;
            }
            match rd::decode_s(&s) {
                Ok(_) => {
                    if valid.len() < 72 {
                        valid.push(b)
                    }
                }
                Err(rd::Reject::NonSquare) => {
                    if nonsquare.len() < 16 {
                        nonsquare.push(b)
                    }
                }
                Err(_) => {}
            }
        }
        let mut boundary_valid = Vec::new();
        // q is odd, so q - k is even (non-negative) for odd k; k = 1 is s = -1
        let mut k = 3u32;
        while boundary_valid.len() < 4 {
            let s = &f.p - k;
            if rd::decode_s(&s).is_ok() {
                boundary_valid.push(arr32(&f.to_le(&s)));
            }
            k += 2;
        }
        let mut k = 2u32;
        while boundary_valid.len() < 8 {
            let s = BigUint::from(k);
            if rd::decode_s(&s).is_ok() {
                boundary_valid.push(arr32(&f.to_le(&s)));
            }
            k += 2;
        }
        for b in &boundary_valid {
            valid.push(*b);
        }
        let mut band = Vec::new();
        let top = &f.p >> 192usize;
        let mut found_valid = 0;
        let mut found_alias = 0;
        while found_valid < 6 || found_alias < 6 {
            let low = Fld::int_le(&rng.bytes(24));
            // (a) top limb of q, random lower limbs: canonical iff below q
            let x = (&top << 192usize) + &low;
            if found_valid < 6 && x < f.p && !x.bit(0) && rd::decode_s(&x).is_ok() {
                band.push(arr32(&f.to_le(&x)));
                valid.push(arr32(&f.to_le(&x)));
                found_valid += 1;
            }
            // (b) small valid s and its alias s + q (top limb stays q's)
            let small = &low >> 8usize;
            if found_alias < 6 && !small.bit(0) && rd::decode_s(&small).is_ok() {
                let alias = &small + &f.p;
                let mut v = alias.to_bytes_le();
                v.resize(32, 0);
                band.push(arr32(&v));
                found_alias += 1;
            }
        }
        // fixed structured members: q +- 2^64 +- small, q +- 2^128 +- small
        for sh in [64usize, 128] {
            for d in [0u32, 1, 2, 3] {
                for plus in [true, false] {
                    let base = if plus { &f.p + (BigUint::from(1u32) << sh) } else { &f.p - (BigUint::from(1u32) << sh) };
                    for x in [&base + d, &base - d] {
                        let mut v = x.to_bytes_le();
                        v.resize(32, 0);
                        band.push(arr32(&v));
                    }
                }
            }
        }
        let mut mont = Vec::new();
        let mut mont_valid = 0;
        let mut tries = 0;
        while (mont.len() < 48 || mont_valid < 16) && tries < 4000 {
            tries += 1;
            let v = mont_value(&mut rng, f);
            // both signs: the even one can be a valid encoding, the odd one must be refused as negative
            let even = if v.bit(0) { f.neg(&v) } else { v.clone() };
            let ok = rd::decode_s(&even).is_ok();
            if ok {
                mont_valid += 1;
            }
            if mont.len() < 48 || ok {
                mont.push(arr32(&f.to_le(&even)));
                if mont.len() % 4 == 0 {
                    mont.push(arr32(&f.to_le(&f.neg(&even))));
                }
            }
        }
        Corpus {
            valid,
            nonsquare,
            boundary_valid,
            band,
            mont,
            seed,
            table_probe: std::sync::OnceLock::new(),
        }
    }

    /// Canonical non-negative s whose discriminant was *chosen*: the ratio whose square root decoding
    /// takes has a prescribed 47-bit table-digit pattern (all ones, single windows, carries of the
    /// halving). Found by solving the quartic in u_1 (simcore::poly); half are valid, half non-square.
    pub fn table_probe(&self) -> &Vec<[u8; 32]> {
        self.table_probe.get_or_init(|| {
            let f = fq();
            let mut rng = Rng::new(simcore::prng::sub_seed(self.seed, "corpus/table_probe"));
            let mut out = Vec::new();
            for e in simcore::poly::table_digit_patterns() {
                if let Some(s) = simcore::poly::encoding_with_table_digits(f, &rd::d(), rd::zeta(), e, &mut rng) {
                    out.push(arr32(&f.to_le(&s)));
                }
            }
            out
        })
    }
}

fn le32(x: &BigUint) -> Option<[u8; 32]> {
    let v = x.to_bytes_le();
    if v.len() > 32 {
        return None;
    }
    Some(arr32(&v))
}

/// The structured near-miss generator of C02's quantifier.
pub fn near_miss(rng: &mut Rng, c: &Corpus) -> [u8; 32] {
    let f = fq();
    let q = &f.p;
    let base = *rng.pick(&c.valid);
    let s = Fld::int_le(&base);
    let two253: BigUint = BigUint::from(1u32) << 253;
    let choice = rng.below(22);
    let cand: Option<[u8; 32]> = match choice {
        0 => le32(&(&s + q)),                           // alias s+q (fits below 2^256)
        1 => le32(&f.neg(&s)),                          // q - s
        2 | 3 => {
            let mut b = base;
            let bit = rng.usize_below(256);
            b[bit / 8] ^= 1 << (bit % 8);
            Some(b)
        }
        4 => le32(&(q - 1u32)),
        5 => le32(q),
        6 => le32(&(q + 1u32)),
        7 => le32(&two253),
        8 => le32(&(&two253 - 1u32)),
        9 => le32(&(&two253 + 1u32)),
        10 => Some([0xff; 32]),
        11 => {
            let mut b = base;
            b[31] |= (rng.range(1, 7) as u8) << 5;
            Some(b)
        }
        12 => Some([0u8; 32]),
        13 => le32(&BigUint::from(1u32)),
        14 => Some(*rng.pick(&c.nonsquare)),
        15 => le32(&(&s + q + q)),
        16 => {
            // odd neighbour of a valid s
            le32(&(&s + 1u32))
        }
        17 => le32(&(q - 2u32)),
        18 => Some(c.band[rng.usize_below(c.band.len())]),
        19 => {
            let t = c.table_probe();
            if t.is_empty() { None } else { Some(t[rng.usize_below(t.len())]) }
        }
        20 => Some(c.mont[rng.usize_below(c.mont.len())]),
        _ => Some(rng.array32()),
    };
    cand.unwrap_or_else(|| rng.array32())
}

pub fn pick_valid(rng: &mut Rng, c: &Corpus) -> [u8; 32] {
    c.valid[rng.usize_below(c.valid.len())]
}

pub fn some_encoding(rng: &mut Rng, c: &Corpus) -> [u8; 32] {
    if rng.chance(1, 2) {
        *rng.pick(&c.valid)
    } else {
        near_miss(rng, c)
    }
}

fn scalar_hex(rng: &mut Rng) -> Hex {
    let r = &fr().p;
    let choice = rng.below(10);
    let k: BigUint = match choice {
        0 => BigUint::from(0u32),
        1 => BigUint::from(1u32),
        2 => BigUint::from(2u32),
        3 => r - 1u32,
        4 => (r - 1u32) >> 1,
        5 => (r + 1u32) >> 1,
        6 => BigUint::from(1u32) << rng.usize_below(250),
        _ => Fld::int_le(&rng.bytes(32)) % r,
    };
    let mut v = k.to_bytes_le();
    v.resize(32, 0);
    hex(&v)
}

fn fq_input_hex(rng: &mut Rng) -> Hex {
    let f = fq();
    let choice = rng.below(8);
    let x: BigUint = match choice {
        0 => BigUint::from(0u32),
        1 => BigUint::from(1u32),
        2 => &f.p - 1u32,
        3 => BigUint::from(rng.below(16)),
        _ => Fld::int_le(&rng.bytes(32)) % &f.p,
    };
    hex(&f.to_le(&x))
}

#[derive(Clone, Debug)]
pub struct Swarm {
    pub fault_level: u8,
    pub en_short: bool,
    pub en_interrupt: bool,
    pub en_zero: bool,
    pub en_err: bool,
    pub en_chan: bool,
    pub en_rng: bool,
    pub max_chunk: usize,
}

impl Swarm {
    pub fn draw(rng: &mut Rng) -> Swarm {
        let fault_level = match rng.below(8) {
            0 | 1 => 0,
            2..=5 => 1,
            _ => 2,
        };
        let mut s = Swarm {
            fault_level,
            en_short: rng.chance(3, 4),
            en_interrupt: rng.chance(1, 2),
            en_zero: rng.chance(1, 2),
            en_err: rng.chance(1, 2),
            en_chan: rng.chance(1, 2),
            en_rng: rng.chance(1, 2),
            max_chunk: *rng.pick(&[1usize, 2, 3, 7, 8, 16, 31, 32, 33, 64]),
        };
        if fault_level == 0 {
            s.en_short = false;
            s.en_interrupt = false;
            s.en_zero = false;
            s.en_err = false;
            s.en_chan = false;
            s.en_rng = false;
        }
        s
    }
    pub fn none() -> Swarm {
        Swarm {
            fault_level: 0,
            en_short: false,
            en_interrupt: false,
            en_zero: false,
            en_err: false,
            en_chan: false,
            en_rng: false,
            max_chunk: 64,
        }
    }
}

pub fn io_plan(rng: &mut Rng, sw: &Swarm, span: usize) -> IoPlan {
    let mut p = IoPlan::default();
    if sw.fault_level == 0 {
        return p;
    }
    let rate = if sw.fault_level == 1 { 6 } else { 2 }; // one in `rate` plans gets an event of an enabled kind
    if sw.en_short && rng.chance(1, 2) {
        let n = rng.range(1, 4) as usize;
        for _ in 0..n {
            p.chunks.push(rng.range(1, sw.max_chunk as u64) as usize);
        }
    }
    let span = span.max(1);
    if sw.en_interrupt && rng.chance(1, rate) {
        let n = rng.range(1, 2);
        for _ in 0..n {
            p.events.push(IoEvent {
                off: rng.usize_below(span),
                ev: IoEv::Interrupt(rng.range(1, 3) as u8),
            });
        }
    }
    if sw.en_zero && rng.chance(1, rate * 2) {
        p.events.push(IoEvent {
            off: rng.usize_below(span + 1),
            ev: IoEv::Zero,
        });
    }
    if sw.en_err && rng.chance(1, rate * 2) {
        p.events.push(IoEvent {
            off: rng.usize_below(span + 1),
            ev: IoEv::Err {
                kind: *rng.pick(&ErrK::ALL),
                sticky: rng.chance(3, 4),
            },
        });
    }
    p
}

pub fn rng_plan(rng: &mut Rng, sw: &Swarm) -> RngPlan {
    let mut p = RngPlan {
        seed: rng.next_u64(),
        windows: vec![],
        try_fill_fails: rng.chance(1, 8),
        try_fill_fails_after: if rng.chance(1, 4) { Some(rng.range(1, 60)) } else { None },
    };
    if sw.en_rng && rng.chance(1, 2) {
        let n = rng.range(1, 2);
        let mut start = rng.below(12);
        for _ in 0..n {
            let len = match rng.below(6) {
                0 => rng.range(1, 8),
                1 | 2 => rng.range(8, 200),
                3 | 4 => rng.range(200, 1500),
                _ => rng.range(1500, 5000),
            };
            let fault = match rng.below(7) {
                0 => RngFault::Stuck(rng.next_u64()),
                1 => RngFault::Zero,
                2 => RngFault::Ones,
                3 => {
                    let l = *rng.pick(&[1usize, 2, 8]);
                    RngFault::Cycle(rng.bytes(l))
                }
                4 => {
                    let b = rng.bytes(4);
                    RngFault::LowEntropy([b[0], b[1], b[2], b[3]])
                }
                5 => RngFault::Counter(rng.next_u64()),
                _ => RngFault::Stuck(rng.below(4)),
            };
            p.windows.push(RngWindow { start, len, fault });
            start += len + rng.below(40);
        }
    }
    p
}

fn idx(rng: &mut Rng, n: usize) -> usize {
    rng.usize_below(n.max(1))
}

pub fn pool_op(rng: &mut Rng, c: &Corpus, sw: &Swarm, n: usize, focus: &str) -> PoolOp {
    // weights: constants, decode, elligator, arithmetic, representation changes, trait constructors, samplers
    let w_sampler = match focus {
        "C06" => 10,
        _ => 1,
    };
    let w_ctor = match focus {
        "C06" => 14,
        _ => 3,
    };
    let weights = [4u64, 8, 5, if n > 0 { 14 } else { 0 }, if n > 0 { 10 } else { 0 }, w_ctor, w_sampler];
    let op = match rng.weighted(&weights) {
        0 => match rng.below(7) {
            0 => EOp::Generator,
            1 => EOp::IdentityConst,
            2 => EOp::DefaultElem,
            3 => EOp::ZeroTrait,
            4 => EOp::AffineZero,
            5 => EOp::AffineGenerator,
            _ => EOp::GroupGenerator,
        },
        1 => EOp::Decode(hex(&pick_valid(rng, c))),
        2 => {
            if rng.chance(1, 8) {
                EOp::Hash2Related(fq_input_hex(rng), rng.chance(1, 2))
            } else if rng.chance(1, 4) {
                EOp::Hash2(fq_input_hex(rng), fq_input_hex(rng))
            } else {
                EOp::Elligator(fq_input_hex(rng))
            }
        }
        3 => match rng.below(9) {
            0 => EOp::Add(idx(rng, n), idx(rng, n)),
            1 => EOp::AddRef(idx(rng, n), idx(rng, n)),
            2 => EOp::Sub(idx(rng, n), idx(rng, n)),
            3 => EOp::Double(idx(rng, n)),
            4 => EOp::MulU64(idx(rng, n), rng.below(6)),
            5 => EOp::MulFr(idx(rng, n), scalar_hex(rng)),
            6 => {
                let l = rng.range(1, 6) as usize;
                let limbs = (0..l)
                    .map(|_| if rng.chance(1, 4) { u64::MAX } else { rng.next_u64() >> rng.below(64) })
                    .collect();
                EOp::MulBigint(idx(rng, n), limbs)
            }
            7 => {
                let l = scaled_len(rng, 0, 4, 25);
                let is: Vec<usize> = (0..l).map(|_| idx(rng, n)).collect();
                // long sums: scalars of about 80 bits (they cross a limb boundary, and the reference stays quick)
                let sc = |rng: &mut Rng| -> Hex {
                    if l > 16 {
                        let mut b = rng.bytes(10);
                        b[9] |= 0x80;
                        hex(&b)
                    } else {
                        scalar_hex(rng)
                    }
                };
                match rng.below(4) {
                    3 => EOp::SumOfAffine(is, rng.chance(1, 2)),
                    0 => EOp::SumOf(is),
                    1 => EOp::Msm(is, (0..l).map(|_| sc(rng)).collect()),
                    _ => EOp::MultiscalarMul(is, (0..l).map(|_| sc(rng)).collect()),
                }
            }
            _ => EOp::Sub(idx(rng, n), idx(rng, n)),
        },
        4 => match rng.below(7) {
            0 => EOp::Neg(idx(rng, n)),
            1 => EOp::SelfSub(idx(rng, n)),
            2 => EOp::PlusMinusOneTimes(idx(rng, n)),
            3 => EOp::NegOfMul(idx(rng, n), scalar_hex(rng)),
            4 => EOp::MulOfNeg(idx(rng, n), scalar_hex(rng)),
            5 => EOp::AffineRoundTrip(idx(rng, n)),
            _ => match rng.below(8) {
                0 => EOp::ClearCofactor(idx(rng, n)),
                1 => EOp::MulByCofactorToGroup(idx(rng, n)),
                2 => EOp::AffineMulBigint(idx(rng, n), vec![rng.next_u64(), rng.below(3)]),
                3 => EOp::AffineNeg(idx(rng, n)),
                4 => EOp::AffineMulFr(idx(rng, n), scalar_hex(rng)),
                5 => EOp::AddAffine(idx(rng, n), idx(rng, n)),
                6 => EOp::IntoGroup(idx(rng, n)),
                _ => match rng.below(6) {
                    4 => EOp::OperatorForm(rng.below(24) as u8, idx(rng, n), idx(rng, n), scalar_hex(rng)),
                    5 => EOp::GadgetValue(hex(&some_encoding(rng, c)), rng.chance(1, 3)),
                    0 => EOp::AddOtherRep(idx(rng, n)),
                    1 => EOp::AddDecoded(idx(rng, n)),
                    2 => EOp::ZeroizedCopyEncoded(idx(rng, n)),
                    _ => EOp::IntoAffine(idx(rng, n)),
                },
            },
        },
        5 => match rng.below(4) {
            0 | 1 => {
                let l = *rng.pick(&[0usize, 1, 31, 32, 32, 32, 33, 64]);
                let mut b = rng.bytes(l);
                if l == 32 && rng.chance(1, 3) {
                    b = rng.pick(&c.valid).to_vec();
                }
                EOp::FromRandomBytes(hex(&b))
            }
            2 => {
                let l = if rng.chance(1, 6) { rng.range(60, 140) } else { rng.range(1, 4) } as usize;
                let k = if l > 8 && rng.chance(1, 2) { (l / 64) * 64 % l } else { rng.usize_below(l) };
                EOp::NormalizeBatch((0..l).map(|_| idx(rng, n)).collect(), k)
            }
            _ => {
                let l = if rng.chance(1, 6) { rng.range(60, 140) } else { rng.range(1, 4) } as usize;
                let k = if l > 8 && rng.chance(1, 2) { (l / 64) * 64 % l } else { rng.usize_below(l) };
                EOp::BatchConvert((0..l).map(|_| idx(rng, n)).collect(), k)
            }
        },
        _ => match rng.below(3) {
            0 => EOp::SampleElement(rng_plan(rng, sw)),
            1 => EOp::SampleAffine(rng_plan(rng, sw)),
            _ => EOp::UniformRand(rng_plan(rng, sw)),
        },
    };
    let full_rate = if focus == "C06" { 3 } else { 24 };
    PoolOp {
        op,
        full_check: rng.chance(1, full_rate),
    }
}

pub fn field_value(rng: &mut Rng, f: &Fld) -> BigUint {
    let p = &f.p;
    match rng.below(14) {
        0 => BigUint::from(0u32),
        1 => BigUint::from(1u32),
        2 => p - 1u32,
        3 => p - 2u32,
        4 => (p - 1u32) >> 1,
        5 => (p + 1u32) >> 1,
        6 => (BigUint::from(1u32) << rng.usize_below(f.bits)) % p,
        7 => ((BigUint::from(1u32) << rng.usize_below(f.bits)) - 1u32) % p,
        8 => BigUint::from(rng.next_u64()),
        9 => decimal_structured(rng) % p,
        10 => mont_value(rng, f),
        _ => Fld::int_le(&rng.bytes(f.nbytes + 8)) % p,
    }
}

/// Element with structured Montgomery limbs (see simcore::field::mont_structured), drawn from this run's PRNG.
pub fn mont_value(rng: &mut Rng, f: &Fld) -> BigUint {
    let mut words: Vec<u64> = (0..24).map(|_| rng.next_u64()).collect();
    let mut picks: Vec<u64> = (0..24).map(|_| rng.next_u64()).collect();
    simcore::field::mont_structured(
        f,
        &mut |n| picks.pop().unwrap_or(0) % n.max(1),
        &mut || words.pop().unwrap_or(0),
    )
}

/// Integers whose *decimal* expansion is structured: powers of ten, aligned all-zero groups of 9 / 18 / 19
/// digits (the natural chunk sizes of limb-wise decimal conversion) below non-zero ones, repdigits.
pub fn decimal_structured(rng: &mut Rng) -> BigUint {
    let ten = BigUint::from(10u32);
    let pow = |k: u32| ten.pow(k);
    match rng.below(5) {
        0 => pow(rng.below(77) as u32),
        1 => pow(rng.below(77) as u32) - 1u32,
        2 => {
            // a * 10^(g*j) + b with b below one group: one or more all-zero groups in between
            let g = *rng.pick(&[9u32, 18, 19, 20]);
            let j = 1 + rng.below(3) as u32;
            let a = BigUint::from(1 + rng.below(9));
            let b = if rng.chance(1, 2) { BigUint::from(0u32) } else { BigUint::from(rng.next_u64() % 1_000_000_000) };
            a * pow(g * j) + b
        }
        3 => {
            // several groups, some of them zero
            let g = *rng.pick(&[9u32, 18, 19]);
            let mut acc = BigUint::from(0u32);
            for i in 0..(76 / g) {
                if rng.chance(1, 2) {
                    acc += BigUint::from(1 + rng.next_u64() % 999_999_999) * pow(g * i);
                }
            }
            acc + pow(g * (76 / g))
        }
        _ => {
            let d = 1 + rng.below(9);
            let n = 1 + rng.below(76);
            let mut acc = BigUint::from(0u32);
            for _ in 0..n {
                acc = acc * 10u32 + d;
            }
            acc
        }
    }
}

fn which(rng: &mut Rng) -> Which {
    *rng.pick(&[Which::Fq, Which::Fr, Which::Fp])
}

/// RNG plan for field samplers: a healthy stream, or one short fault window near the start.
fn small_rng_plan(rng: &mut Rng) -> RngPlan {
    let mut p = RngPlan {
        seed: rng.next_u64(),
        windows: vec![],
        try_fill_fails: false,
        try_fill_fails_after: None,
    };
    if rng.chance(1, 2) {
        let fault = match rng.below(5) {
            0 => RngFault::Ones,
            1 => RngFault::Zero,
            2 => RngFault::Stuck(rng.next_u64()),
            3 => RngFault::Counter(u64::MAX - rng.below(4)),
            _ => {
                let l = *rng.pick(&[1usize, 2, 8]);
                RngFault::Cycle(rng.bytes(l))
            }
        };
        p.windows.push(RngWindow { start: rng.below(10), len: rng.range(1, 400), fault });
    }
    p
}

pub fn field_op(rng: &mut Rng, n: usize) -> FieldOp {
    let w = which(rng);
    let f = fld(w);
    let src = match rng.below(if n > 0 { 14 } else { 11 }) {
        0 | 1 => {
            // byte strings of length 0..=200, structured
            // the property's quantifier names 0..=200; its statement says "any length", and chunked or
            // table-driven reductions have their block boundaries above that, so one string in eight is longer
            let l = match rng.below(8) {
                0 => *rng.pick(&[0usize, 1, 31, 32, 33, 47, 48, 49, 63, 64, 65, 96, 200]),
                1 => *rng.pick(&[255usize, 256, 257, 258, 288, 300, 384, 385, 400, 480, 481, 512, 513, 736, 768, 1024, 2048, 2049, 2100]),
                _ => rng.usize_below(201),
            };
            let mut b = rng.bytes(l);
            match rng.below(7) {
                5 => {
                    // an aligned all-zero chunk below non-zero data (chunked reductions must keep its weight)
                    let n = f.nbytes;
                    if l > n {
                        let k = rng.usize_below(l / n);
                        for x in b.iter_mut().skip(k * n).take(n) {
                            *x = 0;
                        }
                    }
                }
                6 => {
                    // 2^(8*k*nbytes): a single 1 right above k zero chunks
                    b.iter_mut().for_each(|x| *x = 0);
                    let n = f.nbytes;
                    if l > n {
                        let k = 1 + rng.usize_below((l - 1) / n);
                        b[k * n] = 1;
                    }
                }
                0 => b.iter_mut().for_each(|x| *x = 0xff),
                1 => {
                    let pb = f.p.to_bytes_le();
                    for (i, x) in b.iter_mut().enumerate() {
                        *x = pb[i % pb.len()];
                    }
                }
                _ => {}
            }
            match rng.below(3) {
                0 => FSrc::LeMod(hex(&b)),
                1 => FSrc::LeModTrait(hex(&b)),
                _ => FSrc::BeMod(hex(&b)),
            }
        }
        2 | 3 => FSrc::Checked(hex(&f.to_le(&field_value(rng, f)))),
        4 => FSrc::U64(if rng.chance(1, 3) { u64::MAX } else { rng.next_u64() >> rng.below(64) }),
        5 => FSrc::U128(hex(&rng.bytes(16))),
        6 => {
            // decimal strings, possibly above the modulus
            let v = if rng.chance(1, 3) {
                Fld::int_le(&rng.bytes(f.nbytes + 4))
            } else {
                field_value(rng, f)
            };
            FSrc::Dec(v.to_string())
        }
        7 => {
            let v = match rng.below(6) {
                0 | 1 => Fld::int_le(&rng.bytes(f.nbytes + 4)),
                2 => {
                    // wide integers: around 2^2048 and beyond (more 64-bit digits than any fixed buffer guess)
                    let l = *rng.pick(&[64usize, 255, 256, 257, 264, 300, 512, 2048, 2049]);
                    let mut b = rng.bytes(l);
                    if rng.chance(1, 2) {
                        // 2^(8(l-1)) + small
                        b.iter_mut().for_each(|x| *x = 0);
                        b[0] = 5;
                        b[l - 1] = 1;
                    }
                    Fld::int_le(&b)
                }
                _ => field_value(rng, f),
            };
            FSrc::Big(v.to_string())
        }
        8 => match rng.below(4) {
            0 => FSrc::RandWide(small_rng_plan(rng)),
            1 => FSrc::SampleStd(small_rng_plan(rng)),
            2 => {
                // arbitrary limbs, often at or above the modulus
                let mut b = if rng.chance(1, 2) { rng.bytes(f.nbytes) } else { f.to_le(&field_value(rng, f)) };
                if rng.chance(1, 4) {
                    b = vec![0xff; f.nbytes];
                }
                FSrc::FromBigIntReduce(hex(&b))
            }
            _ => FSrc::BigInt(hex(&f.to_le(&field_value(rng, f)))),
        },
        9 => FSrc::Zero,
        10 => FSrc::One,
        11 => FSrc::Add(idx(rng, n), idx(rng, n)),
        12 => FSrc::Mul(idx(rng, n), idx(rng, n)),
        _ => FSrc::Neg(idx(rng, n)),
    };
    FieldOp { which: w, src }
}

fn flagv(rng: &mut Rng) -> FlagV {
    match rng.below(9) {
        0 | 1 => FlagV::Plain,
        2 => FlagV::PlainUncompressed,
        3 => FlagV::Empty,
        4 => FlagV::TE(false),
        5 => FlagV::TE(true),
        6 => FlagV::SW(0),
        7 => FlagV::SW(1),
        _ => FlagV::SW(2),
    }
}

/// Byzantine field record: boundary values and flag-bit patterns.
pub fn raw_field(rng: &mut Rng) -> (Which, Vec<u8>, FlagV) {
    let w = which(rng);
    let f = fld(w);
    let flag = flagv(rng);
    let p = &f.p;
    let top = BigUint::from(1u32) << f.bits;
    let x: BigUint = match rng.below(10) {
        0 => p.clone(),
        1 => p + 1u32,
        2 => p - 1u32,
        3 => top.clone(),
        4 => &top - 1u32,
        5 => (BigUint::from(1u32) << (8 * f.nbytes)) - 1u32,
        6 => field_value(rng, f),
        7 => field_value(rng, f) + p,
        _ => Fld::int_le(&rng.bytes(f.nbytes)),
    };
    let mut b = x.to_bytes_le();
    b.resize(f.nbytes, 0);
    b.truncate(f.nbytes);
    if rng.chance(1, 2) {
        // spare / flag bit patterns on the last byte
        let n = b.len();
        let spare = 8 * f.nbytes - f.bits;
        let pat = (rng.below(1 << spare) as u8) << (8 - spare);
        b[n - 1] = (b[n - 1] & (0xff >> spare)) | pat;
    }
    (w, b, flag)
}

pub fn span_of(p: &Payload) -> usize {
    match p {
        Payload::Elem { .. } | Payload::RawElem { .. } => 32,
        Payload::VecElem { idxs, .. } => 8 + 32 * idxs.len(),
        Payload::RawVecElem { items, .. } => 8 + 32 * items.len(),
        Payload::Tuple4 { .. } => 32 + 32 + 32 + 48,
        Payload::OptAffine { idx } => 1 + if idx.is_some() { 32 } else { 0 },
        Payload::Field { .. } => 48,
        Payload::RawField { which, .. } => fld(*which).nbytes,
        Payload::VecField { which, idxs } => 8 + fld(*which).nbytes * idxs.len(),
        Payload::RawVecField { which, items } => 8 + fld(*which).nbytes * items.len(),
        Payload::Fmt { .. } => 0,
        Payload::ElemUncompressed { .. } => 64,
    }
}

fn elem_as(rng: &mut Rng) -> ElemAs {
    *rng.pick(&[ElemAs::Element, ElemAs::Element, ElemAs::Affine, ElemAs::Encoding])
}

pub fn payload(rng: &mut Rng, c: &Corpus, npool: usize, nf: usize, focus: &str) -> Payload {
    // weights: honest elem, raw elem, vec elem, raw vec, tuple, opt, field, raw field, vec field, fmt
    let w: [u64; 10] = match focus {
        "C02" => [8, 14, 4, 5, 2, 2, 1, 1, 0, 0],
        "C03" => [16, 1, 5, 0, 3, 3, 1, 0, 0, 8],
        "C06" => [8, 6, 3, 2, 1, 2, 0, 0, 0, 1],
        "C11" => [1, 0, 0, 0, 3, 0, 14, 12, 4, 0],
        _ => [6, 6, 3, 2, 2, 2, 5, 5, 2, 2],
    };
    match rng.weighted(&w) {
        0 => Payload::Elem {
            idx: idx(rng, npool),
            as_: elem_as(rng),
        },
        1 => Payload::RawElem {
            bytes: hex(&some_encoding(rng, c)),
            as_: elem_as(rng),
        },
        2 => {
            let l = scaled_len(rng, 0, 4, 40);
            Payload::VecElem {
                idxs: (0..l).map(|_| idx(rng, npool)).collect(),
                as_: elem_as(rng),
            }
        }
        3 => {
            let l = scaled_len(rng, 1, 4, 40);
            let bad = rng.usize_below(l + 1); // index of a possibly invalid item (== l: none)
            Payload::RawVecElem {
                items: (0..l)
                    .map(|i| {
                        if i == bad {
                            hex(&near_miss(rng, c))
                        } else {
                            hex(&pick_valid(rng, c))
                        }
                    })
                    .collect(),
                as_: elem_as(rng),
            }
        }
        4 => Payload::Tuple4 {
            e: idx(rng, npool),
            fq: idx(rng, nf),
            a: idx(rng, npool),
            fp: idx(rng, nf),
        },
        5 => Payload::OptAffine {
            idx: if rng.chance(1, 4) { None } else { Some(idx(rng, npool)) },
        },
        6 => Payload::Field {
            idx: idx(rng, nf),
            flag: flagv(rng),
        },
        7 => {
            let (w, b, flag) = raw_field(rng);
            Payload::RawField {
                which: w,
                bytes: hex(&b),
                flag,
            }
        }
        8 if rng.chance(1, 2) => {
            let l = rng.range(1, 4) as usize;
            let (w, _, _) = raw_field(rng);
            let f = fld(w);
            let bad = rng.usize_below(l + 1);
            Payload::RawVecField {
                which: w,
                items: (0..l)
                    .map(|i| {
                        if i == bad {
                            loop {
                                let (w2, b, _) = raw_field(rng);
                                if w2 == w {
                                    break hex(&b);
                                }
                            }
                        } else {
                            hex(&f.to_le(&field_value(rng, f)))
                        }
                    })
                    .collect(),
            }
        }
        8 => {
            let l = rng.range(0, 4) as usize;
            Payload::VecField {
                which: which(rng),
                idxs: (0..l).map(|_| idx(rng, nf)).collect(),
            }
        }
        _ if rng.chance(1, 3) => Payload::ElemUncompressed {
            idx: idx(rng, npool),
            as_: elem_as(rng),
        },
        _ => Payload::Fmt {
            idx: idx(rng, npool),
            affine: rng.chance(1, 3),
            debug: rng.chance(1, 2),
            fail_at: if rng.chance(1, 3) { Some(rng.usize_below(4)) } else { None },
            alternate: rng.chance(1, 3),
        },
    }
}

/// Byte strings for the uncompressed deserialisers: x || y (32 LE bytes each) of
/// valid points, of on-curve points outside the group, and arbitrary strings.
pub fn uncompressed_bytes(rng: &mut Rng, c: &Corpus) -> Vec<u8> {
    let f = fq();
    let v = pick_valid(rng, c);
    let p = rd::decode(&v).unwrap_or_else(|_| rd::identity());
    let xy = |p: &rd::Pt| {
        let mut b = f.to_le(&p.x);
        b.extend_from_slice(&f.to_le(&p.y));
        b
    };
    match rng.below(10) {
        0 | 1 => xy(&p),
        2 | 3 => xy(&rd::add(&p, &rd::t4())),
        4 => xy(&rd::t4()),
        5 => xy(&rd::neg(&rd::t4())),
        6 => xy(&rd::add(&p, &rd::t2())),
        7 => {
            let mut b = xy(&p);
            let i = rng.usize_below(b.len());
            b[i] ^= 1 << rng.below(8);
            b
        }
        8 => v.to_vec(),
        _ => {
            let l = *rng.pick(&[0usize, 31, 32, 63, 64, 64, 65, 96]);
            rng.bytes(l)
        }
    }
}

/// Lengths around realistic internal block sizes (8 / 64 / 256 items), drawn one time in `one_in`.
fn scaled_len(rng: &mut Rng, small_lo: u64, small_hi: u64, one_in: u64) -> usize {
    if rng.chance(1, one_in) {
        *rng.pick(&[7usize, 8, 9, 63, 64, 65, 66, 127, 128, 129, 255, 256, 257])
    } else {
        rng.range(small_lo, small_hi) as usize
    }
}

pub fn gen_run(rng: &mut Rng, c: &Corpus, focus: &str) -> IoRun {
    let sw = Swarm::draw(rng);
    let mut run = IoRun::default();
    let npool = match focus {
        "C06" => rng.range(2, 9),
        "C11" => rng.range(0, 2),
        _ => rng.range(1, 6),
    } as usize;
    for i in 0..npool {
        if i == 0 && focus == "C03" && rng.chance(1, 40) {
            // nothing has been encoded on this thread yet
            run.pool.push(PoolOp {
                op: EOp::ZeroizedCopyEncoded(0),
                full_check: false,
            });
            continue;
        }
        run.pool.push(pool_op(rng, c, &sw, i, focus));
    }
    let nf = match focus {
        "C11" => rng.range(2, 10),
        "C06" => 0,
        _ => rng.range(0, 3),
    } as usize;
    for i in 0..nf {
        run.fpool.push(field_op(rng, i));
    }
    // tuples need one Fq and one Fp
    if nf > 0 {
        run.fpool.push(FieldOp {
            which: Which::Fq,
            src: FSrc::Checked(hex(&fq().to_le(&field_value(rng, fq())))),
        });
        run.fpool.push(FieldOp {
            which: Which::Fp,
            src: FSrc::Checked(hex(&fld(Which::Fp).to_le(&field_value(rng, fld(Which::Fp))))),
        });
    }
    let mut nrec = match focus {
        "C06" => rng.range(0, 4),
        _ => rng.range(1, 12),
    } as usize;
    // one run in sixty is a long session on one thread: state that accumulates over many records
    // (caches with eviction, reused buffers, counters) is only visible there
    let long_session = focus != "C06" && rng.chance(1, 60);
    if long_session {
        nrec = rng.range(70, 300) as usize;
    }
    let nfp = run.fpool.len();
    for _ in 0..nrec {
        let p = payload(rng, c, npool.max(1), nfp.max(1), focus);
        let span = span_of(&p);
        let quiet = long_session && !rng.chance(1, 10);
        let rec = Record {
            wplan: if quiet { IoPlan::default() } else { io_plan(rng, &sw, span) },
            rplan: if quiet { IoPlan::default() } else { io_plan(rng, &sw, span) },
            recv: if rng.chance(1, 4) { RecvMode::WithModeValidate } else { RecvMode::Compressed },
            flush_fails: sw.fault_level > 0 && rng.chance(1, 16),
            payload: p,
        };
        run.records.push(rec);
    }
    if sw.en_chan && !run.records.is_empty() {
        let n = match sw.fault_level {
            1 => rng.range(0, 1),
            _ => rng.range(0, 3),
        };
        for _ in 0..n {
            let seg = rng.usize_below(run.records.len());
            run.chan.push(match rng.below(7) {
                0 | 1 | 2 => ChanFault::BitFlip {
                    seg,
                    bit: rng.usize_below(8 * 200),
                },
                3 => ChanFault::Truncate {
                    seg,
                    keep: rng.usize_below(200),
                },
                4 => ChanFault::Duplicate { seg },
                5 => ChanFault::Swap { seg },
                _ => ChanFault::Drop { seg },
            });
        }
    }
    if matches!(focus, "C02" | "C06") && rng.chance(1, 3) {
        for _ in 0..rng.range(1, 2) {
            let b = uncompressed_bytes(rng, c);
            let span = b.len();
            run.uncompressed.push(Uncompressed {
                bytes: hex(&b),
                as_: *rng.pick(&[ElemAs::Element, ElemAs::Affine, ElemAs::Encoding]),
                rplan: io_plan(rng, &sw, span),
            });
        }
    }
    if matches!(focus, "C02" | "C06") {
        let nd = rng.range(0, 3);
        for _ in 0..nd {
            let mut b = some_encoding(rng, c).to_vec();
            if rng.chance(1, 2) {
                // datagram channel: shorten / extend to any length 0..=80
                let l = rng.usize_below(81);
                b.resize(l, rng.below(256) as u8);
            }
            run.datagrams.push(Datagram { bytes: hex(&b) });
        }
    }
    run
}
