//! Executes one `IoRun` against the real crate and judges every step against
//! the reference models. Pure function of the run: no PRNG, no clock.

use super::model::*;
use super::seams::*;
use super::wire::{self, Cursor, Exp, RVal, Shape};
use crate::bridge::{self, AffinePoint};
use ark_ec::models::short_weierstrass::SWFlags;
use ark_ec::models::twisted_edwards::TEFlags;
use ark_ec::{AffineRepr, CurveGroup, Group, ScalarMul};
use std::str::FromStr;
use ark_ff::{One, PrimeField, UniformRand, Zero};
use ark_serialize::{
    CanonicalDeserialize, CanonicalDeserializeWithFlags, CanonicalSerialize,
    CanonicalSerializeWithFlags, Compress, EmptyFlags, Flags, SerializationError, Validate,
};
use ark_std::rand::distributions::{Distribution, Standard};
use decaf377::{Element, Encoding, EncodingError, Fp, Fq, Fr};
use num_bigint::BigUint;
use simcore::decaf::{self as rd, Pt};
use simcore::digest::{hex, unhex, Fnv};
use simcore::field::Fld;
use std::collections::BTreeMap;
use std::convert::TryFrom;
use std::panic::{catch_unwind, AssertUnwindSafe};

/// Healthy 64-bit draws a sampler may consume after the last RNG fault window
/// (DESIGN.md, C06/V3: false-alarm probability per call < 2^-200).
pub const SAMPLER_BUDGET: u64 = 20_000;

#[derive(Clone, Debug)]
pub struct Viol {
    pub prop: &'static str,
    pub inv: &'static str,
    /// canonical identification of the failure class (used for known findings
    /// and by the minimiser to keep "the same violation")
    pub key: String,
    pub detail: String,
}

#[derive(Clone, Debug, Default)]
pub struct Outcome {
    pub viols: Vec<Viol>,
    pub probes: BTreeMap<&'static str, u64>,
    pub faults: BTreeMap<&'static str, u64>,
    pub steps: u64,
    pub trace: u64,
    pub nontrivial: bool,
    pub records_total: u64,
    pub records_fault_free: u64,
    pub log: Vec<String>,
    pub sampler_calls: u64,
    pub sampler_draws: u64,
}

struct Ctx {
    out: Outcome,
    trace: Fnv,
    logging: bool,
}

impl Ctx {
    fn probe(&mut self, k: &'static str) {
        *self.out.probes.entry(k).or_insert(0) += 1;
    }
    fn fault(&mut self, k: &'static str, n: u64) {
        if n > 0 {
            *self.out.faults.entry(k).or_insert(0) += n;
            self.out.nontrivial = true;
        }
    }
    fn viol(&mut self, prop: &'static str, inv: &'static str, key: String, detail: String) {
        self.trace.str("VIOL");
        self.trace.str(inv);
        if self.logging {
            self.out
                .log
                .push(format!("VIOLATION {} {} {} :: {}", prop, inv, key, detail));
        }
        self.out.viols.push(Viol {
            prop,
            inv,
            key,
            detail,
        });
    }
    fn ev(&mut self, s: &str) {
        self.trace.str(s);
        self.out.steps += 1;
    }
    fn log(&mut self, f: impl FnOnce() -> String) {
        if self.logging {
            let s = f();
            self.out.log.push(s);
        }
    }
    fn seam_stats(&mut self, st: &SeamStats, side: &'static str) {
        self.out.steps += st.calls + st.flush_calls;
        let (a, b, c, d) = if side == "r" {
            ("read_short", "read_interrupted", "read_eof", "read_error")
        } else {
            ("write_short", "write_interrupted", "write_zero", "write_error")
        };
        self.fault(a, st.short);
        self.fault(b, st.interrupted);
        self.fault(c, st.zero);
        self.fault(d, st.hard_err);
    }
}

fn h32(s: &str) -> [u8; 32] {
    let v = unhex(s).unwrap_or_default();
    let mut a = [0u8; 32];
    let n = v.len().min(32);
    a[..n].copy_from_slice(&v[..n]);
    a
}

fn fr_from_hex(s: &str) -> Fr {
    Fr::from_le_bytes_mod_order(&unhex(s).unwrap_or_default())
}
fn fq_from_hex(s: &str) -> Fq {
    Fq::from_le_bytes_mod_order(&unhex(s).unwrap_or_default())
}

fn panic_msg(e: Box<dyn std::any::Any + Send>) -> String {
    if e.is::<RngBudgetExceeded>() {
        return "sampler exceeded healthy-draw budget".into();
    }
    if let Some(np) = e.downcast_ref::<NoProgress>() {
        return format!(
            "livelock: the code kept calling {} more than {} times in a row although the stream can make no progress",
            np.0, NO_PROGRESS_LIMIT
        );
    }
    if let Some(s) = e.downcast_ref::<&str>() {
        return s.to_string();
    }
    if let Some(s) = e.downcast_ref::<String>() {
        return s.clone();
    }
    "panic".into()
}

// ---------------------------------------------------------------------------
// pool

#[derive(Clone)]
struct PoolEntry {
    e: Element,
    a: Option<AffinePoint>,
    tag: Option<Pt>,
    src: &'static str,
}

fn op_name(op: &EOp) -> &'static str {
    match op {
        EOp::Generator => "GENERATOR",
        EOp::IdentityConst => "IDENTITY",
        EOp::DefaultElem => "default",
        EOp::ZeroTrait => "Zero::zero",
        EOp::AffineZero => "AffineRepr::zero",
        EOp::AffineGenerator => "AffineRepr::generator",
        EOp::GroupGenerator => "Group::generator",
        EOp::Decode(_) => "decode",
        EOp::Elligator(_) => "encode_to_curve",
        EOp::Hash2(..) => "hash_to_curve",
        EOp::Add(..) => "add",
        EOp::AddRef(..) => "add_ref",
        EOp::Sub(..) => "sub",
        EOp::Double(_) => "double",
        EOp::Neg(_) => "neg",
        EOp::SelfSub(_) => "self_sub",
        EOp::PlusMinusOneTimes(_) => "p_plus_minus_one_p",
        EOp::MulU64(..) => "mul_u64",
        EOp::MulFr(..) => "mul_fr",
        EOp::NegOfMul(..) => "neg_of_mul",
        EOp::MulOfNeg(..) => "mul_of_neg",
        EOp::AffineRoundTrip(_) => "affine_round_trip",
        EOp::IntoAffine(_) => "into_affine",
        EOp::NormalizeBatch(..) => "normalize_batch",
        EOp::BatchConvert(..) => "batch_convert_to_mul_base",
        EOp::FromRandomBytes(_) => "from_random_bytes",
        EOp::SampleElement(_) => "sample_element",
        EOp::SampleAffine(_) => "sample_affine",
        EOp::UniformRand(_) => "uniform_rand",
        EOp::MulBigint(..) => "mul_bigint",
        EOp::SumOf(_) => "sum",
        EOp::Msm(..) => "msm",
        EOp::MultiscalarMul(..) => "vartime_multiscalar_mul",
        EOp::ClearCofactor(_) => "clear_cofactor",
        EOp::MulByCofactorToGroup(_) => "mul_by_cofactor_to_group",
        EOp::AffineMulBigint(..) => "affine_mul_bigint",
        EOp::AffineNeg(_) => "affine_neg",
        EOp::AffineMulFr(..) => "affine_mul_fr",
        EOp::AddAffine(..) => "add_affine",
        EOp::IntoGroup(_) => "into_group",
        EOp::AddOtherRep(_) => "add_other_representative",
        EOp::AddDecoded(_) => "add_decoded_copy",
        EOp::Hash2Related(..) => "hash_to_curve_related_inputs",
        EOp::ZeroizedCopyEncoded(_) => "zeroized_copy_encoded",
        EOp::OperatorForm(..) => "operator_form",
        EOp::GadgetValue(..) => "gadget_value",
        EOp::SumOfAffine(..) => "sum_of_affine",
    }
}

struct Built {
    e: Element,
    a: Option<AffinePoint>,
    /// pool index of the element this one is merely another representation of
    same_as: Option<usize>,
    rng: Option<(u64, u64, u64)>, // draws, faulty draws, try_fill calls
    none: bool,                   // constructor legitimately yielded nothing
}

fn el<T: Into<Element>>(t: T) -> Element {
    t.into()
}

fn plain(e: Element) -> Built {
    Built {
        e,
        a: None,
        same_as: None,
        rng: None,
        none: false,
    }
}
fn aff(a: AffinePoint) -> Built {
    Built {
        e: a.into(),
        a: Some(a),
        same_as: None,
        rng: None,
        none: false,
    }
}

/// The element the operation *denotes*, computed by the reference model from the operands' recorded points
/// (operation by operation, like a sequential specification of the application's history). None: the
/// operation has no arithmetic meaning to compare with (sources, samplers) or an operand has no record.
/// What the library arrived at must be this element (either representative); otherwise what it then
/// encodes is not "the specification's encoding of the element".
fn model_of(op: &EOp, pool: &[PoolEntry]) -> Option<Pt> {
    let fr = simcore::field::fr();
    let get = |i: usize| -> Option<Pt> {
        if pool.is_empty() {
            Some(rd::generator().clone())
        } else {
            pool[i % pool.len()].tag.clone()
        }
    };
    let scalar = |h: &str| -> BigUint { Fld::int_le(&unhex(h).unwrap_or_default()) % &fr.p };
    let limbs_int = |l: &Vec<u64>| -> BigUint {
        let mut m = BigUint::from(0u32);
        for x in l.iter().rev() {
            m = (m << 64usize) + BigUint::from(*x);
        }
        m
    };
    Some(match op {
        EOp::Add(i, j) | EOp::AddRef(i, j) | EOp::AddAffine(i, j) => rd::add(&get(*i)?, &get(*j)?),
        EOp::Sub(i, j) => rd::add(&get(*i)?, &rd::neg(&get(*j)?)),
        EOp::Double(i) => {
            let p = get(*i)?;
            rd::add(&p, &p)
        }
        EOp::Neg(i) | EOp::AffineNeg(i) => rd::neg(&get(*i)?),
        EOp::SelfSub(i) | EOp::PlusMinusOneTimes(i) => {
            get(*i)?;
            rd::identity()
        }
        EOp::MulU64(i, k) => rd::scalar_mul(&BigUint::from(*k), &get(*i)?),
        EOp::MulFr(i, h) | EOp::AffineMulFr(i, h) => rd::scalar_mul(&scalar(h), &get(*i)?),
        EOp::NegOfMul(i, h) | EOp::MulOfNeg(i, h) => rd::neg(&rd::scalar_mul(&scalar(h), &get(*i)?)),
        EOp::MulBigint(i, l) | EOp::AffineMulBigint(i, l) => rd::scalar_mul(&(limbs_int(l) % &fr.p), &get(*i)?),
        EOp::SumOf(is) | EOp::SumOfAffine(is, _) => {
            let mut acc = rd::identity();
            if is.is_empty() {
                acc = rd::generator().clone();
            }
            for i in is {
                acc = rd::add(&acc, &get(*i)?);
            }
            acc
        }
        EOp::Msm(is, ks) | EOp::MultiscalarMul(is, ks) => {
            let bases: Vec<Pt> = if is.is_empty() {
                vec![rd::generator().clone()]
            } else {
                is.iter().map(|i| get(*i)).collect::<Option<Vec<_>>>()?
            };
            let mut acc = rd::identity();
            for (n, b) in bases.iter().enumerate() {
                let k = ks.get(n).map(|h| scalar(h)).unwrap_or_else(|| BigUint::from(3u32));
                acc = rd::add(&acc, &rd::scalar_mul(&k, b));
            }
            acc
        }
        EOp::AddOtherRep(i) | EOp::AddDecoded(i) => {
            let p = get(*i)?;
            rd::add(&p, &p)
        }
        EOp::OperatorForm(k, i, j, h) => {
            let (x, y) = (get(*i)?, get(*j)?);
            let f = scalar(h);
            match k % 24 {
                0 | 1 | 2 | 3 | 4 | 5 | 6 | 7 | 17 | 18 => rd::add(&x, &y),
                8 | 9 | 10 | 19 | 20 | 21 => rd::add(&x, &rd::neg(&y)),
                11 | 12 | 13 | 14 | 15 | 23 => rd::scalar_mul(&f, &x),
                16 => rd::add(&rd::add(&x, &y), &x),
                22 => rd::add(&x, &y),
                _ => return None,
            }
        }
        _ => return None,
    })
}

fn build(op: &EOp, pool: &[PoolEntry]) -> Built {
    let get = |i: usize| -> Element {
        if pool.is_empty() {
            Element::GENERATOR
        } else {
            pool[i % pool.len()].e
        }
    };
    let src_index = |i: usize| -> Option<usize> {
        if pool.is_empty() {
            None
        } else {
            Some(i % pool.len())
        }
    };
    let gets = |is: &Vec<usize>| -> Vec<Element> {
        if is.is_empty() {
            vec![Element::GENERATOR]
        } else {
            is.iter().map(|i| get(*i)).collect()
        }
    };
    match op {
        EOp::Generator => plain(Element::GENERATOR),
        EOp::IdentityConst => plain(Element::IDENTITY),
        EOp::DefaultElem => plain(Element::default()),
        EOp::ZeroTrait => plain(<Element as Zero>::zero()),
        EOp::AffineZero => aff(AffinePoint::zero()),
        EOp::AffineGenerator => aff(<AffinePoint as AffineRepr>::generator()),
        EOp::GroupGenerator => plain(<Element as Group>::generator()),
        EOp::Decode(h) => match Encoding(h32(h)).vartime_decompress() {
            Ok(e) => plain(e),
            Err(_) => Built {
                none: true,
                ..plain(Element::IDENTITY)
            },
        },
        EOp::Elligator(h) => plain(Element::encode_to_curve(&fq_from_hex(h))),
        EOp::Hash2(a, b) => plain(Element::hash_to_curve(&fq_from_hex(a), &fq_from_hex(b))),
        EOp::Add(i, j) => plain(get(*i) + get(*j)),
        EOp::AddRef(i, j) => plain(&get(*i) + &get(*j)),
        EOp::Sub(i, j) => plain(get(*i) - get(*j)),
        EOp::Double(i) => plain(get(*i).double()),
        EOp::Neg(i) => plain(-get(*i)),
        EOp::SelfSub(i) => plain(get(*i) - get(*i)),
        EOp::PlusMinusOneTimes(i) => {
            let p = get(*i);
            plain(p + p * (-Fr::from(1u64)))
        }
        EOp::MulU64(i, k) => plain(get(*i) * Fr::from(*k)),
        EOp::MulFr(i, h) => plain(get(*i) * fr_from_hex(h)),
        EOp::NegOfMul(i, h) => plain(-(get(*i) * fr_from_hex(h))),
        EOp::MulOfNeg(i, h) => plain(get(*i) * (-fr_from_hex(h))),
        EOp::AffineRoundTrip(i) => {
            let a: AffinePoint = get(*i).into();
            let e: Element = a.into();
            Built {
                same_as: src_index(*i),
                ..plain(e)
            }
        }
        EOp::IntoAffine(i) => Built {
            same_as: src_index(*i),
            ..aff(get(*i).into_affine())
        },
        EOp::NormalizeBatch(is, k) => {
            let v = gets(is);
            let r = Element::normalize_batch(&v);
            let j = *k % r.len();
            Built {
                same_as: is.get(j).and_then(|i| src_index(*i)),
                ..aff(r[j])
            }
        }
        EOp::BatchConvert(is, k) => {
            let v = gets(is);
            let r = Element::batch_convert_to_mul_base(&v);
            let j = *k % r.len();
            Built {
                same_as: is.get(j).and_then(|i| src_index(*i)),
                ..aff(r[j])
            }
        }
        EOp::FromRandomBytes(h) => {
            match AffinePoint::from_random_bytes(&unhex(h).unwrap_or_default()) {
                Some(a) => aff(a),
                None => Built {
                    none: true,
                    ..plain(Element::IDENTITY)
                },
            }
        }
        EOp::SampleElement(plan) => {
            let mut rng = SimRng::new(plan, SAMPLER_BUDGET);
            let e: Element = Standard.sample(&mut rng);
            Built {
                rng: Some((rng.draws, rng.faulty_draws, rng.try_fill_calls)),
                ..plain(e)
            }
        }
        EOp::SampleAffine(plan) => {
            let mut rng = SimRng::new(plan, SAMPLER_BUDGET);
            let a: AffinePoint = Standard.sample(&mut rng);
            Built {
                rng: Some((rng.draws, rng.faulty_draws, rng.try_fill_calls)),
                ..aff(a)
            }
        }
        EOp::UniformRand(plan) => {
            let mut rng = SimRng::new(plan, SAMPLER_BUDGET);
            let e = <Element as UniformRand>::rand(&mut rng);
            Built {
                rng: Some((rng.draws, rng.faulty_draws, rng.try_fill_calls)),
                ..plain(e)
            }
        }
        EOp::MulBigint(i, limbs) => plain(get(*i).mul_bigint(limbs)),
        EOp::SumOf(is) => {
            let v = gets(is);
            plain(v.iter().sum::<Element>())
        }
        EOp::Msm(is, scalars) => {
            let bases: Vec<AffinePoint> = gets(is).iter().map(|e| (*e).into()).collect();
            let ks: Vec<Fr> = (0..bases.len())
                .map(|i| scalars.get(i).map(|h| fr_from_hex(h)).unwrap_or_else(|| Fr::from(3u64)))
                .collect();
            match <Element as ark_ec::VariableBaseMSM>::msm(&bases, &ks) {
                Ok(e) => plain(e),
                Err(_) => Built {
                    none: true,
                    ..plain(Element::IDENTITY)
                },
            }
        }
        EOp::MultiscalarMul(is, scalars) => {
            let pts = gets(is);
            let ks: Vec<Fr> = (0..pts.len())
                .map(|i| scalars.get(i).map(|h| fr_from_hex(h)).unwrap_or_else(|| Fr::from(3u64)))
                .collect();
            plain(Element::vartime_multiscalar_mul(ks.iter(), pts.iter()))
        }
        EOp::ClearCofactor(i) => {
            let a: AffinePoint = get(*i).into();
            Built {
                same_as: src_index(*i),
                ..aff(a.clear_cofactor())
            }
        }
        EOp::MulByCofactorToGroup(i) => {
            let a: AffinePoint = get(*i).into();
            Built {
                same_as: src_index(*i),
                ..plain(a.mul_by_cofactor_to_group())
            }
        }
        EOp::AffineMulBigint(i, limbs) => {
            let a: AffinePoint = get(*i).into();
            plain(AffineRepr::mul_bigint(&a, limbs))
        }
        EOp::AffineNeg(i) => {
            let a: AffinePoint = get(*i).into();
            aff(-a)
        }
        EOp::AffineMulFr(i, h) => {
            let a: AffinePoint = get(*i).into();
            plain(a * fr_from_hex(h))
        }
        EOp::AddAffine(i, j) => {
            let a: AffinePoint = get(*j).into();
            plain(get(*i) + a)
        }
        EOp::IntoGroup(i) => {
            let a: AffinePoint = get(*i).into();
            Built {
                same_as: src_index(*i),
                ..plain(a.into_group())
            }
        }
        EOp::SumOfAffine(is, by_ref) => {
            let v: Vec<AffinePoint> = gets(is).iter().map(|e| (*e).into()).collect();
            if *by_ref {
                plain(v.iter().sum::<Element>())
            } else {
                plain(v.into_iter().sum::<Element>())
            }
        }
        EOp::GadgetValue(h, input) => {
            use ark_r1cs_std::alloc::{AllocVar, AllocationMode};
            use ark_r1cs_std::R1CSVar;
            let s = fq_from_hex(h);
            let mode = if *input { AllocationMode::Input } else { AllocationMode::Witness };
            let got = catch_unwind(AssertUnwindSafe(|| {
                let cs = ark_relations::r1cs::ConstraintSystem::<Fq>::new_ref();
                let var = <decaf377::r1cs::ElementVar as AllocVar<Fq, Fq>>::new_variable(cs, || Ok(s), mode).ok()?;
                var.value().ok()
            }));
            match got {
                Ok(Some(e)) => plain(e),
                _ => Built {
                    none: true,
                    ..plain(Element::IDENTITY)
                },
            }
        }
        EOp::OperatorForm(k, i, j, h) => {
            let (x, y) = (get(*i), get(*j));
            let (ax, ay): (AffinePoint, AffinePoint) = (x.into(), y.into());
            let f = fr_from_hex(h);
            plain(match k % 24 {
                0 => el(&x + &y),
                1 => el(x + &y),
                2 => el(&x + y),
                3 => {
                    let mut t = x;
                    t += y;
                    t
                }
                4 => {
                    let mut t = x;
                    t += &y;
                    t
                }
                5 => el(ax + ay),
                6 => el(&ax + &ay),
                7 => el(ax + y),
                8 => el(x - ay),
                9 => el(ax - ay),
                10 => {
                    let mut t = x;
                    t -= ay;
                    t
                }
                11 => el(f * x),
                12 => el(&f * &x),
                13 => el(f * ax),
                14 => {
                    let mut t = ax;
                    t *= f;
                    t.into()
                }
                15 => {
                    let mut t = x;
                    t *= &f;
                    t
                }
                16 => el([ax, ay, ax].iter().sum::<Element>()),
                17 => el([x, y].iter().sum::<Element>()),
                18 => {
                    let mut t = ax;
                    t += ay;
                    t.into()
                }
                19 => {
                    let mut t = x;
                    t -= &ay;
                    t
                }
                20 => el(&x - &y),
                21 => el(x - &y),
                22 => el(vec![ax, ay].into_iter().sum::<Element>()),
                _ => el(&ax * &f),
            })
        }
        EOp::AddOtherRep(i) => {
            let p = get(*i);
            let t = Element::GENERATOR + Element::GENERATOR * (-Fr::from(1u64));
            plain(p + (p + t))
        }
        EOp::AddDecoded(i) => {
            let p = get(*i);
            match p.vartime_compress().vartime_decompress() {
                Ok(q) => plain(&p + &q),
                Err(_) => Built {
                    none: true,
                    ..plain(Element::IDENTITY)
                },
            }
        }
        EOp::Hash2Related(h, same) => {
            let r = fq_from_hex(h);
            plain(Element::hash_to_curve(&r, &(if *same { r } else { -r })))
        }
        EOp::ZeroizedCopyEncoded(i) => {
            use zeroize::Zeroize;
            use std::fmt::Write as _;
            let p = get(*i);
            let mut z = p;
            z.zeroize();
            // whatever a wiped value encodes to is not judged; it must not disturb later encodings
            let _ = z.vartime_compress();
            let mut sink = String::new();
            let _ = write!(sink, "{}{:?}", z, z);
            Built {
                same_as: src_index(*i),
                ..plain(p)
            }
        }
    }
}

/// C06 validity of one produced element, by the reference.
fn check_valid(ctx: &mut Ctx, src: &'static str, e: &Element, a: &Option<AffinePoint>, full: bool) -> Option<Pt> {
    let tag = match a {
        Some(a) => Some(bridge::affine_to_pt(a)),
        None => bridge::elem_to_pt(e),
    };
    let tag = match tag {
        Some(t) => t,
        None => {
            ctx.viol(
                "C06",
                "invalid_element",
                format!("source={} reason=affine_conversion_panics", src),
                "Element -> AffinePoint conversion panicked".into(),
            );
            return None;
        }
    };
    let verdict = if full {
        rd::valid_representative(&tag)
    } else {
        rd::valid_representative_cheap(&tag)
    };
    if let Err(reason) = verdict {
        ctx.viol(
            "C06",
            "invalid_element",
            format!("source={} reason={}", src, reason),
            format!("point {} is not a valid representative", bridge::pt_hex(&tag)),
        );
        return Some(tag);
    }
    if full {
        ctx.probe("full_group_membership_checked");
    }
    // V2 through the crate: decode(encode(P)) == P
    let e2 = *e;
    let rt = catch_unwind(AssertUnwindSafe(move || {
        let enc = e2.vartime_compress();
        (enc.0, enc.vartime_decompress())
    }));
    // C03: every way of asking for the bytes gives the same 32 bytes, and they are the canonical
    // little-endian form of the field-element form
    {
        let e3 = *e;
        let forms = catch_unwind(AssertUnwindSafe(move || {
            let a: [u8; 32] = e3.into();
            let b: Encoding = e3.into();
            let c: Encoding = (&e3).into();
            let d: [u8; 32] = b.into();
            let f = e3.vartime_compress_to_field().to_bytes_le();
            (e3.vartime_compress().0, a, c.0, d, f)
        }));
        match forms {
            Ok((base, a, c, d, f)) => {
                if a != base || c != base || d != base || f != base {
                    ctx.viol(
                        "C03",
                        "representation_dependent",
                        format!("op=conversions source={}", src),
                        format!(
                            "vartime_compress {} / From<Element> for [u8;32] {} / From<&Element> for Encoding {} / Encoding->[u8;32] {} / compress_to_field {}",
                            hex(&base),
                            hex(&a),
                            hex(&c),
                            hex(&d),
                            hex(&f)
                        ),
                    );
                }
            }
            Err(p) => ctx.viol("C03", "panic", format!("op=conversions source={}", src), panic_msg(p)),
        }
    }
    match rt {
        Ok((bytes, Ok(back))) => {
            if back != *e {
                ctx.viol(
                    "C06",
                    "roundtrip",
                    format!("source={} reason=decodes_to_other_element", src),
                    format!("encoding {} decodes to a different element", hex(&bytes)),
                );
            }
            match rd::decode(&bytes) {
                Ok(p) if rd::equal(&p, &tag) => {}
                _ => ctx.viol(
                    "C06",
                    "roundtrip",
                    format!("source={} reason=reference_rejects_encoding", src),
                    format!("crate encoding {} is not the element (reference)", hex(&bytes)),
                ),
            }
        }
        Ok((bytes, Err(_))) => ctx.viol(
            "C06",
            "roundtrip",
            format!("source={} reason=own_encoding_rejected", src),
            format!("encoding {} of a constructed element does not decode", hex(&bytes)),
        ),
        Err(p) => ctx.viol(
            "C06",
            "panic",
            format!("source={} op=roundtrip", src),
            panic_msg(p),
        ),
    }
    Some(tag)
}

/// The same application step on the minimal build (second, heterogeneous node;
/// no affine forms, no stream API there). `None`: the operation has no
/// counterpart or an operand is missing.
fn build_min(op: &EOp, mpool: &[Option<decaf377_min::Element>]) -> Option<decaf377_min::Element> {
    use decaf377_min as m;
    let get = |i: usize| -> Option<m::Element> {
        if mpool.is_empty() {
            Some(m::Element::GENERATOR)
        } else {
            mpool[i % mpool.len()]
        }
    };
    let fr = |h: &str| m::Fr::from_le_bytes_mod_order(&unhex(h).unwrap_or_default());
    let fq = |h: &str| m::Fq::from_le_bytes_mod_order(&unhex(h).unwrap_or_default());
    Some(match op {
        EOp::Generator | EOp::GroupGenerator => m::Element::GENERATOR,
        EOp::IdentityConst | EOp::DefaultElem | EOp::ZeroTrait => m::Element::IDENTITY,
        EOp::Decode(h) => m::Encoding(h32(h)).vartime_decompress().ok()?,
        EOp::Elligator(h) => m::Element::encode_to_curve(&fq(h)),
        EOp::Hash2(a, b) => m::Element::hash_to_curve(&fq(a), &fq(b)),
        EOp::Add(i, j) => get(*i)? + get(*j)?,
        EOp::AddRef(i, j) => &get(*i)? + &get(*j)?,
        EOp::Sub(i, j) => get(*i)? - get(*j)?,
        EOp::Double(i) => get(*i)?.double(),
        EOp::Neg(i) => -get(*i)?,
        EOp::SelfSub(i) => get(*i)? - get(*i)?,
        EOp::PlusMinusOneTimes(i) => {
            let p = get(*i)?;
            p + p * (-m::Fr::from(1u64))
        }
        EOp::MulU64(i, k) => get(*i)? * m::Fr::from(*k),
        EOp::MulFr(i, h) => get(*i)? * fr(h),
        EOp::NegOfMul(i, h) => -(get(*i)? * fr(h)),
        EOp::MulOfNeg(i, h) => get(*i)? * (-fr(h)),
        EOp::AffineRoundTrip(i) | EOp::IntoAffine(i) => get(*i)?,
        _ => return None,
    })
}

fn build_pool(ctx: &mut Ctx, run: &IoRun) -> Vec<PoolEntry> {
    let mut pool: Vec<PoolEntry> = Vec::new();
    let mut mpool: Vec<Option<decaf377_min::Element>> = Vec::new();
    for pop in &run.pool {
        // heterogeneous node first (it only reads `mpool`, which mirrors `pool` index by index)
        let mres = {
            let mp = &mpool;
            catch_unwind(AssertUnwindSafe(|| {
                build_min(&pop.op, mp).map(|e| (e, e.vartime_compress().0))
            }))
        };
        let (m_elem, m_bytes, m_panic) = match mres {
            Ok(Some((e, b))) => (Some(e), Some(b), None),
            Ok(None) => (None, None, None),
            Err(p) => (None, None, Some(panic_msg(p))),
        };
        mpool.push(m_elem);
        if let Some(msg) = m_panic {
            ctx.viol(
                "C03",
                "panic",
                format!("backend=minimal op={}", op_name(&pop.op)),
                format!("minimal build panicked while building or encoding the element: {}", msg),
            );
        }
        let pool_len_before = pool.len();
        let name = op_name(&pop.op);
        ctx.ev(name);
        let res = {
            let p = &pool;
            catch_unwind(AssertUnwindSafe(|| build(&pop.op, p)))
        };
        match res {
            Ok(b) => {
                if let Some((draws, faulty, tf)) = b.rng {
                    ctx.out.steps += draws;
                    ctx.out.sampler_calls += 1;
                    ctx.out.sampler_draws += draws - faulty;
                    ctx.fault("rng_faulty_draws", faulty);
                    if tf > 0 {
                        ctx.probe("sampler_called_try_fill_bytes");
                    }
                    if draws > 5 {
                        ctx.probe("sampler_rejected_a_candidate");
                    }
                    if faulty > 1000 {
                        ctx.probe("sampler_survived_fault_window_over_1000_draws");
                    }
                    if faulty > 0 && b.e.is_identity() {
                        ctx.probe("faulty_rng_window_produced_identity");
                    }
                }
                if b.none {
                    ctx.probe("constructor_returned_none");
                    pool.push(PoolEntry {
                        e: Element::IDENTITY,
                        a: None,
                        tag: Some(rd::identity()),
                        src: name,
                    });
                    continue;
                }
                let tag = check_valid(ctx, name, &b.e, &b.a, pop.full_check);
                if let Some(t) = &tag {
                    if rd::valid_representative_cheap(t).is_ok() {
                        if let Some(want) = model_of(&pop.op, &pool) {
                            ctx.out.steps += 1;
                            if rd::equal(t, &want) {
                                ctx.probe("operation_arrived_at_the_element_it_denotes");
                            } else {
                                // Arithmetic correctness is what C04 (operator forms) and C05 (scalar
                                // multiplication) state; neither is claimed by this engine (pure functions), so
                                // this is recorded as an other-property diagnostic and never decides a claimed
                                // check. C03 itself only speaks about how the element arrived at is encoded.
                                let prop = match &pop.op {
                                    EOp::MulU64(..) | EOp::MulFr(..) | EOp::NegOfMul(..) | EOp::MulOfNeg(..) | EOp::MulBigint(..)
                                    | EOp::AffineMulBigint(..) | EOp::AffineMulFr(..) | EOp::Msm(..) | EOp::MultiscalarMul(..) => "C05",
                                    EOp::OperatorForm(k, ..) if matches!(k % 24, 11 | 12 | 13 | 14 | 15 | 23) => "C05",
                                    _ => "C04",
                                };
                                ctx.viol(
                                    prop,
                                    "element_value",
                                    format!("op={}", name),
                                    format!(
                                        "{} arrived at {} but denotes {} (reference group law)",
                                        name,
                                        bridge::pt_hex(t),
                                        bridge::pt_hex(&want)
                                    ),
                                );
                            }
                        }
                    }
                }
                // a conversion between representations (affine <-> projective, batch normalisation) must not
                // change which element is represented, or the two forms would encode differently
                if let (Some(j), Some(t)) = (b.same_as, &tag) {
                    if let Some(src_tag) = pool.get(j).and_then(|p| p.tag.as_ref()) {
                        if rd::valid_representative_cheap(src_tag).is_ok() {
                            if !rd::equal(src_tag, t) {
                                ctx.viol(
                                    "C03",
                                    "representation_dependent",
                                    format!("op={}", name),
                                    format!(
                                        "{} changed the element: {} became {}",
                                        name,
                                        bridge::pt_hex(src_tag),
                                        bridge::pt_hex(t)
                                    ),
                                );
                            } else {
                                ctx.probe("conversion_preserved_element");
                            }
                        }
                    }
                }
                if let Some(t) = &tag {
                    if t.x.is_zero() && t.y == simcore::field::fq().neg(&BigUint::from(1u32)) {
                        ctx.probe("pool_has_2torsion_identity_representative");
                    }
                }
                ctx.log(|| {
                    format!(
                        "pool[{}] = {} -> {}",
                        pool.len(),
                        name,
                        tag.as_ref().map(bridge::pt_hex).unwrap_or_default()
                    )
                });
                pool.push(PoolEntry {
                    e: b.e,
                    a: b.a,
                    tag,
                    src: name,
                });
            }
            Err(p) => {
                let budget = p.is::<RngBudgetExceeded>();
                let msg = panic_msg(p);
                if budget {
                    ctx.viol(
                        "C06",
                        "sampler_no_progress",
                        format!("source={}", name),
                        format!(
                            "sampler did not return within {} healthy draws after the last fault window",
                            SAMPLER_BUDGET
                        ),
                    );
                } else {
                    ctx.viol("C06", "panic", format!("source={} op=construct", name), msg);
                }
                pool.push(PoolEntry {
                    e: Element::IDENTITY,
                    a: None,
                    tag: Some(rd::identity()),
                    src: name,
                });
            }
        }
        // both builds must give the specification's bytes for the same application step
        if let (Some(mb), true) = (m_bytes, pool.len() == pool_len_before + 1) {
            if let Some(tag) = pool.last().and_then(|p| p.tag.clone()) {
                if rd::valid_representative_cheap(&tag).is_ok() {
                    match rd::encode(&tag) {
                        Some(want) if want != mb => ctx.viol(
                            "C03",
                            "ser_bytes",
                            format!("backend=minimal op={}", op_name(&pop.op)),
                            format!(
                                "minimal build encodes the result of {} as {} but the specification says {}",
                                op_name(&pop.op),
                                hex(&mb),
                                hex(&want)
                            ),
                        ),
                        Some(_) => ctx.probe("minimal_build_application_agreed"),
                        None => {}
                    }
                }
            }
        }
    }
    if pool.is_empty() {
        pool.push(PoolEntry {
            e: Element::GENERATOR,
            a: None,
            tag: Some(rd::generator().clone()),
            src: "GENERATOR",
        });
    }
    pool
}

// ---------------------------------------------------------------------------
// field pool

#[derive(Clone, Copy, Debug)]
pub enum FVal {
    Fq(Fq),
    Fr(Fr),
    Fp(Fp),
}

pub trait SimField:
    PrimeField + CanonicalSerializeWithFlags + CanonicalDeserializeWithFlags + Ord + std::hash::Hash
{
    const WHICH: Which;
    fn le_bytes(&self) -> Vec<u8>;
    fn to_bytes_(&self) -> Vec<u8>;
    fn le_mod(b: &[u8]) -> Self;
    fn checked(b: &[u8]) -> Option<Result<Self, EncodingError>>;
    fn wrap(self) -> FVal;
    fn unwrap(v: &FVal) -> Option<Self>;
    /// the inherent `rand` (not UniformRand's)
    fn rand_wide(rng: &mut SimRng) -> Self;
    fn from_bigint_reduce(le: &[u8]) -> Option<Self>;
}

macro_rules! sim_field {
    ($t:ident, $n:expr) => {
        impl SimField for $t {
            const WHICH: Which = Which::$t;
            fn le_bytes(&self) -> Vec<u8> {
                self.to_bytes_le().to_vec()
            }
            fn to_bytes_(&self) -> Vec<u8> {
                self.to_bytes().to_vec()
            }
            fn le_mod(b: &[u8]) -> Self {
                $t::from_le_bytes_mod_order(b)
            }
            fn checked(b: &[u8]) -> Option<Result<Self, EncodingError>> {
                let a = <[u8; $n]>::try_from(b).ok()?;
                Some($t::from_bytes_checked(&a))
            }
            fn wrap(self) -> FVal {
                FVal::$t(self)
            }
            fn rand_wide(rng: &mut SimRng) -> Self {
                $t::rand(rng)
            }
            fn from_bigint_reduce(le: &[u8]) -> Option<Self> {
                let mut limbs = [0u64; $n / 8];
                if le.len() != $n {
                    return None;
                }
                for (i, c) in le.chunks(8).enumerate() {
                    limbs[i] = u64::from_le_bytes(<[u8; 8]>::try_from(c).ok()?);
                }
                Some(<$t as From<ark_ff::BigInt<{ $n / 8 }>>>::from(ark_ff::BigInt(limbs)))
            }

            fn unwrap(v: &FVal) -> Option<Self> {
                match v {
                    FVal::$t(x) => Some(*x),
                    _ => None,
                }
            }
        }
    };
}
sim_field!(Fq, 32);
sim_field!(Fr, 32);
sim_field!(Fp, 48);

fn fval_int(v: &FVal) -> BigUint {
    match v {
        FVal::Fq(x) => bridge::fq_to_big(x),
        FVal::Fr(x) => bridge::fr_to_big(x),
        FVal::Fp(x) => bridge::fp_to_big(x),
    }
}
fn fval_which(v: &FVal) -> Which {
    match v {
        FVal::Fq(_) => Which::Fq,
        FVal::Fr(_) => Which::Fr,
        FVal::Fp(_) => Which::Fp,
    }
}

struct FEntry {
    v: FVal,
    model: BigUint,
}

/// Builds one field element through the crate and, independently, the integer
/// the reference says it denotes.
fn build_field<F: SimField>(src: &FSrc, fpool: &[FEntry]) -> Option<(F, BigUint)> {
    let f = wire::fld(F::WHICH);
    let same: Vec<(F, &BigUint)> = fpool
        .iter()
        .filter_map(|e| F::unwrap(&e.v).map(|x| (x, &e.model)))
        .collect();
    let get = |i: usize| -> (F, BigUint) {
        if same.is_empty() {
            (F::from(7u64), BigUint::from(7u32))
        } else {
            let (x, m) = &same[i % same.len()];
            (*x, (*m).clone())
        }
    };
    Some(match src {
        FSrc::LeMod(h) => {
            let b = unhex(h)?;
            (F::le_mod(&b), Fld::int_le(&b) % &f.p)
        }
        FSrc::LeModTrait(h) => {
            let b = unhex(h)?;
            (
                <F as PrimeField>::from_le_bytes_mod_order(&b),
                Fld::int_le(&b) % &f.p,
            )
        }
        FSrc::BeMod(h) => {
            let b = unhex(h)?;
            (
                <F as PrimeField>::from_be_bytes_mod_order(&b),
                Fld::int_be(&b) % &f.p,
            )
        }
        FSrc::Checked(h) => {
            let b = unhex(h)?;
            let x = Fld::int_le(&b);
            if b.len() != f.nbytes || x >= f.p {
                return None;
            }
            (F::checked(&b)?.ok()?, x)
        }
        FSrc::U64(v) => (F::from(*v), BigUint::from(*v) % &f.p),
        FSrc::U128(h) => {
            let b = unhex(h)?;
            let mut a = [0u8; 16];
            let n = b.len().min(16);
            a[..n].copy_from_slice(&b[..n]);
            let v = u128::from_le_bytes(a);
            (F::from(v), BigUint::from(v) % &f.p)
        }
        FSrc::Dec(s) => {
            let m = BigUint::parse_bytes(s.as_bytes(), 10)?;
            match F::from_str(s) {
                Ok(x) => (x, m % &f.p),
                // a plain decimal numeral without sign or leading zeros must parse; report as a value that
                // cannot equal the reference (the caller turns the mismatch into a violation)
                Err(_) => std::panic::panic_any(format!("FromStr rejected the decimal string {:?}", s)),
            }
        }
        FSrc::Big(s) => {
            let m = BigUint::parse_bytes(s.as_bytes(), 10)?;
            (F::from(m.clone()), m % &f.p)
        }
        FSrc::BigInt(h) => {
            let b = unhex(h)?;
            let m = Fld::int_le(&b);
            if m >= f.p {
                return None;
            }
            let big = <F as PrimeField>::BigInt::try_from(m.clone()).ok()?;
            (F::from_bigint(big)?, m)
        }
        FSrc::Add(i, j) => {
            let (a, ma) = get(*i);
            let (b, mb) = get(*j);
            (a + b, f.add(&ma, &mb))
        }
        FSrc::Mul(i, j) => {
            let (a, ma) = get(*i);
            let (b, mb) = get(*j);
            (a * b, f.mul(&ma, &mb))
        }
        FSrc::Neg(i) => {
            let (a, ma) = get(*i);
            (-a, f.neg(&ma))
        }
        FSrc::RandWide(plan) => {
            let mut rng = SimRng::new(plan, SAMPLER_BUDGET);
            let x = F::rand_wide(&mut rng);
            // reference: the same stream, nbytes + 16 bytes little-endian, reduced
            let mut r2 = SimRng::new(plan, SAMPLER_BUDGET);
            let mut b = vec![0u8; f.nbytes + 16];
            rand_core::RngCore::fill_bytes(&mut r2, &mut b);
            (x, Fld::int_le(&b) % &f.p)
        }
        FSrc::SampleStd(plan) => {
            let mut rng = SimRng::new(plan, SAMPLER_BUDGET);
            let x: F = <F as UniformRand>::rand(&mut rng);
            // which value comes out is the sampler's business; that it is a canonical one is checked by the
            // conversion checks that follow (the bytes it serialises to must denote an integer below p)
            let got = Fld::int_le(&x.le_bytes());
            if got >= f.p {
                std::panic::panic_any(format!("sampled element serialises to the non-canonical integer {:x}", got));
            }
            (x, got)
        }
        FSrc::FromBigIntReduce(h) => {
            let b = unhex(h)?;
            (F::from_bigint_reduce(&b)?, Fld::int_le(&b) % &f.p)
        }
        FSrc::Zero => (F::zero(), BigUint::from(0u32)),
        FSrc::One => (F::one(), BigUint::from(1u32)),
    })
}

fn fsrc_name(s: &FSrc) -> &'static str {
    match s {
        FSrc::LeMod(_) => "from_le_bytes_mod_order",
        FSrc::LeModTrait(_) => "PrimeField::from_le_bytes_mod_order",
        FSrc::BeMod(_) => "from_be_bytes_mod_order",
        FSrc::Checked(_) => "from_bytes_checked",
        FSrc::RandWide(_) => "rand_wide",
        FSrc::SampleStd(_) => "sample_standard",
        FSrc::FromBigIntReduce(_) => "From<BigInt>",
        FSrc::U64(_) => "From<u64>",
        FSrc::U128(_) => "From<u128>",
        FSrc::Dec(_) => "FromStr",
        FSrc::Big(_) => "From<BigUint>",
        FSrc::BigInt(_) => "from_bigint",
        FSrc::Add(..) => "add",
        FSrc::Mul(..) => "mul",
        FSrc::Neg(_) => "neg",
        FSrc::Zero => "zero",
        FSrc::One => "one",
    }
}

fn build_fpool(ctx: &mut Ctx, run: &IoRun) -> Vec<FEntry> {
    let mut fpool: Vec<FEntry> = Vec::new();
    for fop in &run.fpool {
        let name = fsrc_name(&fop.src);
        ctx.ev(name);
        let r = {
            let fp_ = &fpool;
            catch_unwind(AssertUnwindSafe(|| match fop.which {
                Which::Fq => build_field::<Fq>(&fop.src, fp_).map(|(x, m)| (x.wrap(), m)),
                Which::Fr => build_field::<Fr>(&fop.src, fp_).map(|(x, m)| (x.wrap(), m)),
                Which::Fp => build_field::<Fp>(&fop.src, fp_).map(|(x, m)| (x.wrap(), m)),
            }))
        };
        match r {
            Ok(Some((v, model))) => {
                let got = fval_int(&v);
                if got != model {
                    ctx.viol(
                        "C11",
                        "source_value",
                        format!("field={:?} source={}", fop.which, name),
                        format!("crate value {:x} != reference {:x}", got, model),
                    );
                }
                // Into<BigUint> / into_bigint / to_bytes agree with the canonical LE bytes
                let (big, limbs, tb): (BigUint, Vec<u64>, Vec<u8>) = match &v {
                    FVal::Fq(x) => ((*x).into(), x.into_bigint().0.to_vec(), x.to_bytes_()),
                    FVal::Fr(x) => ((*x).into(), x.into_bigint().0.to_vec(), x.to_bytes_()),
                    FVal::Fp(x) => ((*x).into(), x.into_bigint().0.to_vec(), x.to_bytes_()),
                };
                let mut lb = Vec::new();
                for l in &limbs {
                    lb.extend_from_slice(&l.to_le_bytes());
                }
                if big != got || Fld::int_le(&lb) != got || Fld::int_le(&tb) != got {
                    ctx.viol(
                        "C11",
                        "conversion_disagreement",
                        format!("field={:?}", fop.which),
                        format!(
                            "to_bytes_le={:x} Into<BigUint>={:x} into_bigint={:x} to_bytes={:x}",
                            got,
                            big,
                            Fld::int_le(&lb),
                            Fld::int_le(&tb)
                        ),
                    );
                }
                // Montgomery-limb constructor (public for Fq only; every curve constant is built with it):
                // x * R mod p goes in, x comes out
                if fop.which == Which::Fq {
                    let f = wire::fld(fop.which);
                    let r = BigUint::from(1u32) << (8 * f.nbytes);
                    let m = (&got * r) % &f.p;
                    let mut mb = m.to_bytes_le();
                    mb.resize(f.nbytes, 0);
                    let limbs: Vec<u64> = mb.chunks(8).map(|c| u64::from_le_bytes(<[u8; 8]>::try_from(c).unwrap())).collect();
                    let back = catch_unwind(AssertUnwindSafe(|| {
                        let a = <[u64; 4]>::try_from(&limbs[..]).unwrap();
                        bridge::fq_to_big(&Fq::from_montgomery_limbs(a))
                    }));
                    match back {
                        Ok(x) if x == got => ctx.probe("montgomery_limb_constructor_matched_reference"),
                        Ok(other) => ctx.viol(
                            "C11",
                            "conversion_disagreement",
                            "field=Fq op=from_montgomery_limbs".into(),
                            format!("from_montgomery_limbs(x*R) gave {:x} for x = {:x}", other, got),
                        ),
                        Err(p) => ctx.viol("C11", "panic", "field=Fq op=from_montgomery_limbs".into(), panic_msg(p)),
                    }
                }
                // Display under formatting flags (width, fill, alignment, precision, sign, alternate, zero padding):
                // whatever the flags do to the layout, the digits must still denote the same integer
                {
                    let outs = catch_unwind(AssertUnwindSafe(|| -> Vec<(&'static str, String)> {
                        macro_rules! all {
                            ($x:expr) => {
                                vec![
                                    ("{:.0}", format!("{:.0}", $x)),
                                    ("{:.5}", format!("{:.5}", $x)),
                                    ("{:>12.3}", format!("{:>12.3}", $x)),
                                    ("{:<90}", format!("{:<90}", $x)),
                                    ("{:^7}", format!("{:^7}", $x)),
                                    ("{:0120}", format!("{:0120}", $x)),
                                    ("{:+}", format!("{:+}", $x)),
                                    ("{:#}", format!("{:#}", $x)),
                                    ("{:.*}", format!("{:.*}", 2, $x)),
                                ]
                            };
                        }
                        match &v {
                            FVal::Fq(x) => all!(x),
                            FVal::Fr(x) => all!(x),
                            FVal::Fp(x) => all!(x),
                        }
                    }));
                    match outs {
                        Ok(list) => {
                            for (spec, text) in list {
                                let t = text.trim().trim_start_matches('+');
                                let denotes = if t.is_empty() { Some(BigUint::from(0u32)) } else { BigUint::parse_bytes(t.as_bytes(), 10) };
                                if denotes.as_ref() != Some(&got) {
                                    ctx.viol(
                                        "C11",
                                        "decimal_text",
                                        format!("field={:?} op=display spec={}", fop.which, spec),
                                        format!("formatted with {} the element {} prints as {:?}", spec, got, text),
                                    );
                                    break;
                                }
                            }
                        }
                        Err(p) => ctx.viol("C11", "panic", format!("field={:?} op=display_with_flags", fop.which), panic_msg(p)),
                    }
                }
                // FromStr refuses everything that is not a plain decimal numeral of ASCII digits
                {
                    let numeral = got.to_string();
                    let mid = numeral.len() / 2;
                    let bad: Vec<String> = vec![
                        format!("{}{}", numeral, '\u{131}'),
                        format!("{}{}", '\u{130}', numeral),
                        format!("{}{}{}", &numeral[..mid], '\u{132}', &numeral[mid..]),
                        format!("{}{}", numeral, '\u{1F939}'),
                        format!("{} ", numeral),
                        format!(" {}", numeral),
                        format!("+{}", numeral),
                        format!("-{}", numeral),
                        format!("{}a", numeral),
                        format!("{}{}", numeral, '\u{663}'),
                        format!("{}{}", '\u{FF13}', numeral),
                        format!("{}.0", numeral),
                        format!("0x{}", numeral),
                        format!("{}_{}", &numeral[..mid], &numeral[mid..]),
                    ];
                    let which = fop.which;
                    let accepted = catch_unwind(AssertUnwindSafe(move || -> Option<String> {
                        for b in bad {
                            let ok = match which {
                                Which::Fq => Fq::from_str(&b).is_ok(),
                                Which::Fr => Fr::from_str(&b).is_ok(),
                                Which::Fp => Fp::from_str(&b).is_ok(),
                            };
                            if ok {
                                return Some(b);
                            }
                        }
                        None
                    }));
                    match accepted {
                        Ok(None) => ctx.probe("from_str_refused_non_numerals"),
                        Ok(Some(b)) => ctx.viol(
                            "C11",
                            "decimal_text",
                            format!("field={:?} op=from_str_accepts_non_numeral", fop.which),
                            format!("FromStr accepted {:?}, which is not a decimal numeral", b),
                        ),
                        Err(p) => ctx.viol("C11", "panic", format!("field={:?} op=from_str", fop.which), panic_msg(p)),
                    }
                }
                // decimal text: Display denotes the same integer (the pinned code prints zero as the empty
                // string; both "" and "0" are taken for zero) and FromStr reads it back
                let text = catch_unwind(AssertUnwindSafe(|| match &v {
                    FVal::Fq(x) => (x.to_string(), Fq::from_str(&x.to_string()).ok().map(|y| y == *x)),
                    FVal::Fr(x) => (x.to_string(), Fr::from_str(&x.to_string()).ok().map(|y| y == *x)),
                    FVal::Fp(x) => (x.to_string(), Fp::from_str(&x.to_string()).ok().map(|y| y == *x)),
                }));
                ctx.out.steps += 1;
                match text {
                    Ok((t, back)) => {
                        let want = got.to_string();
                        let zero_ok = got == BigUint::from(0u32) && (t.is_empty() || t == "0");
                        if t != want && !zero_ok {
                            ctx.viol(
                                "C11",
                                "decimal_text",
                                format!("field={:?} op=display", fop.which),
                                format!("Display prints {:?} for the integer {}", t, want),
                            );
                        } else if got != BigUint::from(0u32) && back != Some(true) {
                            ctx.viol(
                                "C11",
                                "decimal_text",
                                format!("field={:?} op=display_then_from_str", fop.which),
                                format!("FromStr(Display(x)) of {} gave {:?}", want, back),
                            );
                        } else {
                            ctx.probe("decimal_text_matched_reference");
                        }
                    }
                    Err(p) => ctx.viol("C11", "panic", format!("field={:?} op=display", fop.which), panic_msg(p)),
                }
                fpool.push(FEntry { v, model });
            }
            Ok(None) => {
                ctx.probe("field_source_not_applicable");
            }
            Err(p) => {
                ctx.viol(
                    "C11",
                    "panic",
                    format!("field={:?} source={}", fop.which, name),
                    panic_msg(p),
                );
            }
        }
    }
    fpool
}

// ---------------------------------------------------------------------------
// sending

#[derive(Clone)]
struct Seg {
    bytes: Vec<u8>,
    rec: usize,
    shape: Shape,
    /// model value for honest, acknowledged, untouched records
    sent: Option<RVal>,
    intact: bool,
}

fn elem_entry<'a>(pool: &'a [PoolEntry], i: usize) -> &'a PoolEntry {
    &pool[i % pool.len()]
}

fn field_entry<'a>(fpool: &'a [FEntry], w: Option<Which>, i: usize) -> Option<&'a FEntry> {
    let v: Vec<&FEntry> = fpool
        .iter()
        .filter(|e| w.map(|w| fval_which(&e.v) == w).unwrap_or(true))
        .collect();
    if v.is_empty() {
        None
    } else {
        Some(v[i % v.len()])
    }
}

fn ser_err_class(e: &SerializationError) -> &'static str {
    match e {
        SerializationError::NotEnoughSpace => "NotEnoughSpace",
        SerializationError::InvalidData => "InvalidData",
        SerializationError::UnexpectedFlags => "UnexpectedFlags",
        SerializationError::IoError(_) => "IoError",
    }
}

fn write_field<F: SimField, W: std::io::Write>(
    x: &F,
    flag: FlagV,
    w: W,
) -> (Result<(), SerializationError>, usize) {
    match flag {
        FlagV::Plain => (x.serialize_compressed(w), x.serialized_size(Compress::Yes)),
        FlagV::PlainUncompressed => (x.serialize_uncompressed(w), x.serialized_size(Compress::No)),
        FlagV::Empty => (
            x.serialize_with_flags(w, EmptyFlags),
            x.serialized_size_with_flags::<EmptyFlags>(),
        ),
        FlagV::TE(neg) => (
            x.serialize_with_flags(
                w,
                if neg {
                    TEFlags::XIsNegative
                } else {
                    TEFlags::XIsPositive
                },
            ),
            x.serialized_size_with_flags::<TEFlags>(),
        ),
        FlagV::SW(k) => (
            x.serialize_with_flags(
                w,
                match k {
                    0 => SWFlags::YIsPositive,
                    1 => SWFlags::PointAtInfinity,
                    _ => SWFlags::YIsNegative,
                },
            ),
            x.serialized_size_with_flags::<SWFlags>(),
        ),
    }
}

fn write_fval<W: std::io::Write>(v: &FVal, flag: FlagV, w: W) -> (Result<(), SerializationError>, usize) {
    match v {
        FVal::Fq(x) => write_field(x, flag, w),
        FVal::Fr(x) => write_field(x, flag, w),
        FVal::Fp(x) => write_field(x, flag, w),
    }
}

fn write_elem<W: std::io::Write>(p: &PoolEntry, as_: ElemAs, w: W) -> (Result<(), SerializationError>, usize) {
    match as_ {
        ElemAs::Element => (p.e.serialize_compressed(w), p.e.serialized_size(Compress::Yes)),
        ElemAs::Affine => {
            let a: AffinePoint = p.a.unwrap_or_else(|| p.e.into());
            (a.serialize_compressed(w), a.serialized_size(Compress::Yes))
        }
        ElemAs::Encoding => {
            let enc = p.e.vartime_compress();
            (enc.serialize_compressed(w), enc.serialized_size(Compress::Yes))
        }
    }
}

struct SendJob {
    shape: Shape,
    model: Option<RVal>,
    /// responsible property for the serialiser side
    prop: &'static str,
    what: String,
}

/// Describes an honest payload: its shape, its model value, and performs the
/// crate's serialisation into `sink`.
fn send_payload(
    payload: &Payload,
    pool: &[PoolEntry],
    fpool: &[FEntry],
    sink: &mut SimSink,
) -> Option<(SendJob, Result<(), SerializationError>, usize)> {
    match payload {
        Payload::Elem { idx, as_ } => {
            let p = elem_entry(pool, *idx);
            let (r, sz) = write_elem(p, *as_, &mut *sink);
            Some((
                SendJob {
                    shape: Shape::Elem(*as_),
                    model: p.tag.clone().map(RVal::Pt),
                    prop: "C03",
                    what: format!("{:?} from {}", as_, p.src),
                },
                r,
                sz,
            ))
        }
        Payload::VecElem { idxs, as_ } => {
            let ps: Vec<&PoolEntry> = idxs.iter().map(|i| elem_entry(pool, *i)).collect();
            let model: Option<Vec<RVal>> = ps.iter().map(|p| p.tag.clone().map(RVal::Pt)).collect();
            let (r, sz) = match as_ {
                ElemAs::Element => {
                    let v: Vec<Element> = ps.iter().map(|p| p.e).collect();
                    (v.serialize_compressed(&mut *sink), v.serialized_size(Compress::Yes))
                }
                ElemAs::Affine => {
                    let v: Vec<AffinePoint> =
                        ps.iter().map(|p| p.a.unwrap_or_else(|| p.e.into())).collect();
                    (v.serialize_compressed(&mut *sink), v.serialized_size(Compress::Yes))
                }
                ElemAs::Encoding => {
                    let v: Vec<Encoding> = ps.iter().map(|p| p.e.vartime_compress()).collect();
                    (v.serialize_compressed(&mut *sink), v.serialized_size(Compress::Yes))
                }
            };
            Some((
                SendJob {
                    shape: Shape::Vec(Box::new(Shape::Elem(*as_))),
                    model: model.map(RVal::Vec),
                    prop: "C03",
                    what: format!("Vec<{:?}> x{}", as_, idxs.len()),
                },
                r,
                sz,
            ))
        }
        Payload::Tuple4 { e, fq, a, fp } => {
            let pe = elem_entry(pool, *e);
            let pa = elem_entry(pool, *a);
            let fqe = field_entry(fpool, Some(Which::Fq), *fq)?;
            let fpe = field_entry(fpool, Some(Which::Fp), *fp)?;
            let (xq, xp) = match (&fqe.v, &fpe.v) {
                (FVal::Fq(q), FVal::Fp(p)) => (*q, *p),
                _ => return None,
            };
            let t: (Element, Fq, AffinePoint, Fp) =
                (pe.e, xq, pa.a.unwrap_or_else(|| pa.e.into()), xp);
            let r = t.serialize_compressed(&mut *sink);
            let sz = t.serialized_size(Compress::Yes);
            let model = match (&pe.tag, &pa.tag) {
                (Some(te), Some(ta)) => Some(RVal::Tuple(vec![
                    RVal::Pt(te.clone()),
                    RVal::Int(fqe.model.clone(), 0),
                    RVal::Pt(ta.clone()),
                    RVal::Int(fpe.model.clone(), 0),
                ])),
                _ => None,
            };
            Some((
                SendJob {
                    shape: Shape::Tuple(vec![
                        Shape::Elem(ElemAs::Element),
                        Shape::Field(Which::Fq, FlagV::Plain),
                        Shape::Elem(ElemAs::Affine),
                        Shape::Field(Which::Fp, FlagV::Plain),
                    ]),
                    model,
                    prop: "C03",
                    what: "(Element,Fq,AffinePoint,Fp)".into(),
                },
                r,
                sz,
            ))
        }
        Payload::OptAffine { idx } => {
            let (o, model): (Option<AffinePoint>, Option<RVal>) = match idx {
                None => (None, Some(RVal::Opt(None))),
                Some(i) => {
                    let p = elem_entry(pool, *i);
                    (
                        Some(p.a.unwrap_or_else(|| p.e.into())),
                        p.tag.clone().map(|t| RVal::Opt(Some(Box::new(RVal::Pt(t))))),
                    )
                }
            };
            let r = o.serialize_compressed(&mut *sink);
            let sz = o.serialized_size(Compress::Yes);
            Some((
                SendJob {
                    shape: Shape::Opt(Box::new(Shape::Elem(ElemAs::Affine))),
                    model,
                    prop: "C03",
                    what: "Option<AffinePoint>".into(),
                },
                r,
                sz,
            ))
        }
        Payload::Field { idx, flag } => {
            let fe = field_entry(fpool, None, *idx)?;
            let (r, sz) = write_fval(&fe.v, *flag, &mut *sink);
            Some((
                SendJob {
                    shape: Shape::Field(fval_which(&fe.v), *flag),
                    model: Some(RVal::Int(fe.model.clone(), wire::flag_mask(*flag))),
                    prop: "C11",
                    what: format!("{:?} {:?}", fval_which(&fe.v), flag),
                },
                r,
                sz,
            ))
        }
        Payload::VecField { which, idxs } => {
            let es: Vec<&FEntry> = idxs
                .iter()
                .filter_map(|i| field_entry(fpool, Some(*which), *i))
                .collect();
            let model = RVal::Vec(es.iter().map(|e| RVal::Int(e.model.clone(), 0)).collect());
            let (r, sz) = match which {
                Which::Fq => {
                    let v: Vec<Fq> = es.iter().filter_map(|e| Fq::unwrap(&e.v)).collect();
                    (v.serialize_compressed(&mut *sink), v.serialized_size(Compress::Yes))
                }
                Which::Fr => {
                    let v: Vec<Fr> = es.iter().filter_map(|e| Fr::unwrap(&e.v)).collect();
                    (v.serialize_compressed(&mut *sink), v.serialized_size(Compress::Yes))
                }
                Which::Fp => {
                    let v: Vec<Fp> = es.iter().filter_map(|e| Fp::unwrap(&e.v)).collect();
                    (v.serialize_compressed(&mut *sink), v.serialized_size(Compress::Yes))
                }
            };
            Some((
                SendJob {
                    shape: Shape::Vec(Box::new(Shape::Field(*which, FlagV::Plain))),
                    model: Some(model),
                    prop: "C11",
                    what: format!("Vec<{:?}> x{}", which, es.len()),
                },
                r,
                sz,
            ))
        }
        _ => None,
    }
}

fn raw_segment(payload: &Payload) -> Option<(Shape, Vec<u8>)> {
    match payload {
        Payload::RawElem { bytes, as_ } => Some((Shape::Elem(*as_), unhex(bytes)?)),
        Payload::RawVecElem { items, as_ } => {
            let mut b = (items.len() as u64).to_le_bytes().to_vec();
            for it in items {
                b.extend_from_slice(&unhex(it)?);
            }
            Some((Shape::Vec(Box::new(Shape::Elem(*as_))), b))
        }
        Payload::RawField { which, bytes, flag } => Some((Shape::Field(*which, *flag), unhex(bytes)?)),
        Payload::RawVecField { which, items } => {
            let mut b = (items.len() as u64).to_le_bytes().to_vec();
            for it in items {
                b.extend_from_slice(&unhex(it)?);
            }
            Some((Shape::Vec(Box::new(Shape::Field(*which, FlagV::Plain))), b))
        }
        _ => None,
    }
}

/// First component (in stream order) of a tuple at which two byte strings differ.
fn blame(job: &SendJob, expected: &[u8], got: &[u8]) -> &'static str {
    if let Shape::Tuple(ss) = &job.shape {
        let mut off = 0usize;
        for s in ss {
            let n = match s {
                Shape::Elem(_) => 32,
                Shape::Field(w, _) => wire::fld(*w).nbytes,
                _ => 0,
            };
            let e = expected.get(off..off + n);
            let g = got.get(off..(off + n).min(got.len()));
            if e != g {
                return if s.has_elem() { "C03" } else { "C11" };
            }
            off += n;
        }
    }
    job.prop
}

fn do_fmt(ctx: &mut Ctx, pool: &[PoolEntry], idx: usize, affine: bool, debug: bool, fail_at: Option<usize>, alternate: bool) {
    use std::fmt::Write as _;
    let p = elem_entry(pool, idx);
    let tag = match &p.tag {
        Some(t) => t.clone(),
        None => return,
    };
    let expected_hex = match rd::encode(&tag) {
        Some(b) => hex(&b),
        None => return,
    };
    let expected = if affine {
        format!("decaf377::AffinePoint({})", expected_hex)
    } else {
        format!("decaf377::Element({})", expected_hex)
    };
    let mut sink = SimFmtSink::new(fail_at);
    let e = p.e;
    let a: AffinePoint = p.a.unwrap_or_else(|| p.e.into());
    // the alternate flag is what `dbg!` and `{:#?}` on any containing struct pass down
    let r = catch_unwind(AssertUnwindSafe(|| match (affine, debug, alternate) {
        (false, false, false) => write!(sink, "{}", e),
        (false, true, false) => write!(sink, "{:?}", e),
        (true, false, false) => write!(sink, "{}", a),
        (true, true, false) => write!(sink, "{:?}", a),
        (false, false, true) => write!(sink, "{:#}", e),
        (false, true, true) => write!(sink, "{:#?}", e),
        (true, false, true) => write!(sink, "{:#}", a),
        (true, true, true) => write!(sink, "{:#?}", a),
    }));
    ctx.out.steps += sink.calls as u64;
    let what = format!(
        "{}{}{}",
        if affine { "AffinePoint" } else { "Element" },
        if debug { ":Debug" } else { ":Display" },
        if alternate { "#" } else { "" }
    );
    ctx.ev(&what);
    match r {
        Err(pn) => ctx.viol("C03", "panic", format!("op=fmt {}", what), panic_msg(pn)),
        Ok(Ok(())) => {
            if sink.failed {
                ctx.fault("fmt_write_error", 1);
                ctx.viol(
                    "C03",
                    "fmt_ok_despite_sink_error",
                    format!("op=fmt {}", what),
                    "formatter sink failed but formatting returned Ok".into(),
                );
            } else if sink.text != expected {
                ctx.viol(
                    "C03",
                    "fmt_text",
                    format!("op=fmt {} source={}", what, p.src),
                    format!("got {:?}, expected {:?}", sink.text, expected),
                );
            } else {
                ctx.probe("fmt_text_matched_reference");
            }
        }
        Ok(Err(_)) => {
            if sink.failed {
                ctx.fault("fmt_write_error", 1);
                ctx.probe("fmt_sink_error_propagated");
            } else {
                ctx.viol(
                    "C03",
                    "fmt_err_without_fault",
                    format!("op=fmt {}", what),
                    "formatting failed on a healthy sink".into(),
                );
            }
        }
    }
}

/// Uncompressed serialisation. On the pinned tree the mode flag is ignored and
/// the 32 canonical bytes are written. Whatever a tree writes in this mode must
/// still depend only on the element (C03): it must be the canonical encoding.
/// A tree that does not offer the mode (`unimplemented!()`) is accepted.
fn do_uncompressed_ser(ctx: &mut Ctx, pool: &[PoolEntry], idx: usize, as_: ElemAs, wplan: &IoPlan) {
    let p = elem_entry(pool, idx);
    let tag = match &p.tag {
        Some(t) => t.clone(),
        None => return,
    };
    let expected = match rd::encode(&tag) {
        Some(b) => b.to_vec(),
        None => return,
    };
    if rd::valid_representative_cheap(&tag).is_err() {
        return;
    }
    let mut medium: Vec<u8> = Vec::new();
    let (r, st) = {
        let mut sink = SimSink::new(&mut medium, wplan);
        let e = p.e;
        let a: AffinePoint = p.a.unwrap_or_else(|| p.e.into());
        let r = catch_unwind(AssertUnwindSafe(|| match as_ {
            ElemAs::Element => e.serialize_uncompressed(&mut sink),
            ElemAs::Affine => a.serialize_uncompressed(&mut sink),
            ElemAs::Encoding => e.vartime_compress().serialize_uncompressed(&mut sink),
        }));
        (r, sink.stats.clone())
    };
    ctx.seam_stats(&st, "w");
    ctx.ev("serialize_uncompressed");
    let fatal = wplan.fatal_in(0, medium.len().max(expected.len())).is_some();
    match r {
        Err(pn) => {
            let msg = panic_msg(pn);
            if msg.contains("not implemented") {
                ctx.probe("uncompressed_serialisation_not_offered");
            } else {
                ctx.viol("C03", "panic", format!("op=serialize_uncompressed as={:?}", as_), msg);
            }
        }
        Ok(Ok(())) => {
            if medium != expected {
                ctx.viol(
                    "C03",
                    "ser_bytes",
                    format!("op=serialize_uncompressed shape={:?} fault={}", as_, fatal),
                    format!(
                        "{:?} from {}: uncompressed serialisation wrote {} but the canonical encoding is {}",
                        as_,
                        p.src,
                        hex(&medium),
                        hex(&expected)
                    ),
                );
            } else {
                ctx.probe("uncompressed_serialisation_is_canonical");
            }
        }
        Ok(Err(e)) => {
            if !fatal {
                ctx.viol(
                    "C03",
                    "ser_err_without_fault",
                    format!("op=serialize_uncompressed shape={:?} err={}", as_, ser_err_class(&e)),
                    format!("{:?}", e),
                );
            }
        }
    }
}

fn send_all(ctx: &mut Ctx, run: &IoRun, pool: &[PoolEntry], fpool: &[FEntry]) -> Vec<Seg> {
    let mut medium: Vec<u8> = Vec::new();
    let mut segs: Vec<Seg> = Vec::new();
    // W2 table: reference encoding -> bytes the crate emitted
    let mut by_ref: BTreeMap<Vec<u8>, Vec<u8>> = BTreeMap::new();
    for (ri, rec) in run.records.iter().enumerate() {
        ctx.out.records_total += 1;
        if rec.wplan.is_clean() && rec.rplan.is_clean() && !rec.flush_fails {
            ctx.out.records_fault_free += 1;
        }
        if let Payload::ElemUncompressed { idx, as_ } = &rec.payload {
            do_uncompressed_ser(ctx, pool, *idx, *as_, &rec.wplan);
            continue;
        }
        if let Payload::Fmt { idx, affine, debug, fail_at, alternate } = &rec.payload {
            do_fmt(ctx, pool, *idx, *affine, *debug, *fail_at, *alternate);
            continue;
        }
        if let Some((shape, bytes)) = raw_segment(&rec.payload) {
            ctx.ev("raw");
            ctx.ev(&shape.name());
            ctx.probe("byzantine_record_sent");
            segs.push(Seg {
                bytes,
                rec: ri,
                shape,
                sent: None,
                intact: false,
            });
            continue;
        }
        let start = medium.len();
        let res = {
            let mut sink = SimSink::new(&mut medium, &rec.wplan);
            sink.flush_fails = rec.flush_fails;
            let r = catch_unwind(AssertUnwindSafe(|| send_payload(&rec.payload, pool, fpool, &mut sink)));
            let st = sink.stats.clone();
            (r, st)
        };
        let (r, st) = res;
        ctx.seam_stats(&st, "w");
        if st.flush_calls > 0 {
            ctx.probe("serialiser_called_flush");
        }
        let accepted: Vec<u8> = medium[start..].to_vec();
        medium.truncate(start);
        match r {
            Err(pn) => {
                let prop = match &rec.payload {
                    Payload::Field { .. } | Payload::VecField { .. } => "C11",
                    _ => "C03",
                };
                ctx.viol(prop, "panic", "op=serialize".into(), panic_msg(pn));
            }
            Ok(None) => {
                ctx.probe("record_skipped_no_operand");
            }
            Ok(Some((job, result, size))) => {
                ctx.ev(&job.shape.name());
                let mut expected = Vec::new();
                let exp_ok = match &job.model {
                    Some(m) => wire::print(&job.shape, m, &mut expected).is_some(),
                    None => false,
                };
                if !exp_ok {
                    // element whose validity already failed (reported under C06): nothing to compare
                    ctx.probe("send_without_model");
                    continue;
                }
                let fatal = rec.wplan.fatal_in(0, expected.len()).is_some();
                // ark-serialize 0.4.2 writes the `bool` tag of an `Option` with `write`, not
                // `write_all`: an interrupted or refused first byte is the dependency's
                // defect, not decaf377's. Nothing is asserted about such a send.
                if matches!(job.shape, Shape::Opt(_)) && rec.wplan.events.iter().any(|e| e.off == 0) {
                    ctx.probe("dependency_bool_write_quirk_skipped");
                    segs.push(Seg {
                        bytes: accepted,
                        rec: ri,
                        shape: job.shape,
                        sent: None,
                        intact: false,
                    });
                    continue;
                }
                match result {
                    Ok(()) => {
                        ctx.ev("sent_ok");
                        if accepted != expected {
                            let prop = blame(&job, &expected, &accepted);
                            ctx.viol(
                                prop,
                                "ser_bytes",
                                format!("op=serialize shape={} fault={}", job.shape.name(), fatal),
                                format!(
                                    "{}: sink accepted {} but the specification says {}",
                                    job.what,
                                    hex(&accepted),
                                    hex(&expected)
                                ),
                            );
                        }
                        if size != expected.len() {
                            ctx.viol(
                                job.prop,
                                "serialized_size",
                                format!("op=serialized_size shape={}", job.shape.name()),
                                format!("serialized_size {} but {} bytes specified", size, expected.len()),
                            );
                        }
                        if let (Shape::Elem(_), Some(RVal::Pt(_))) = (&job.shape, &job.model) {
                            if accepted.len() == 32 && accepted[31] >> 5 != 0 {
                                ctx.viol(
                                    "C03",
                                    "top_bits",
                                    "op=serialize".into(),
                                    format!("top three bits not clear: {}", hex(&accepted)),
                                );
                            }
                            // W2: equal elements (by the reference) <=> equal bytes
                            if let Some(prev) = by_ref.get(&expected) {
                                if *prev != accepted {
                                    ctx.viol(
                                        "C03",
                                        "representation_dependent",
                                        "op=serialize".into(),
                                        format!("{} vs {}", hex(prev), hex(&accepted)),
                                    );
                                } else {
                                    ctx.probe("equal_elements_sent_twice_same_bytes");
                                }
                            }
                            for (k, v) in by_ref.iter() {
                                if *k != expected && *v == accepted {
                                    ctx.viol(
                                        "C03",
                                        "collision",
                                        "op=serialize".into(),
                                        format!("unequal elements both encode to {}", hex(&accepted)),
                                    );
                                }
                            }
                            by_ref.insert(expected.clone(), accepted.clone());
                        }
                        segs.push(Seg {
                            bytes: accepted,
                            rec: ri,
                            shape: job.shape,
                            sent: job.model,
                            intact: true,
                        });
                    }
                    Err(e) => {
                        ctx.ev("sent_err");
                        if !fatal && !(rec.flush_fails && st.flush_calls > 0) {
                            ctx.viol(
                                job.prop,
                                "ser_err_without_fault",
                                format!("op=serialize shape={} err={}", job.shape.name(), ser_err_class(&e)),
                                format!("{}: serialisation failed on a healthy sink: {:?}", job.what, e),
                            );
                        } else {
                            ctx.probe("sink_refused_mid_record_and_call_returned_err");
                        }
                        // torn record stays on the medium (sender crashed mid-record)
                        segs.push(Seg {
                            bytes: accepted,
                            rec: ri,
                            shape: job.shape,
                            sent: None,
                            intact: false,
                        });
                    }
                }
            }
        }
    }
    segs
}

fn apply_channel(ctx: &mut Ctx, run: &IoRun, segs: &mut Vec<Seg>) {
    for cf in &run.chan {
        if segs.is_empty() {
            return;
        }
        match cf {
            ChanFault::BitFlip { seg, bit } => {
                let s = *seg % segs.len();
                let n = segs[s].bytes.len();
                if n > 0 {
                    let b = *bit % (8 * n);
                    segs[s].bytes[b / 8] ^= 1 << (b % 8);
                    segs[s].intact = false;
                    segs[s].sent = None;
                    ctx.fault("chan_bit_flip", 1);
                }
            }
            ChanFault::Truncate { seg, keep } => {
                let s = *seg % segs.len();
                let k = *keep % (segs[s].bytes.len() + 1);
                segs[s].bytes.truncate(k);
                segs[s].intact = false;
                segs[s].sent = None;
                // segments after s are gone, but the receiver still attempts them (it does not know)
                for later in segs.iter_mut().skip(s + 1) {
                    later.bytes.clear();
                    later.intact = false;
                    later.sent = None;
                }
                ctx.fault("chan_truncate", 1);
            }
            ChanFault::Duplicate { seg } => {
                let s = *seg % segs.len();
                let d = segs[s].clone();
                segs.insert(s + 1, d);
                ctx.fault("chan_duplicate", 1);
            }
            ChanFault::Swap { seg } => {
                if segs.len() >= 2 {
                    let s = *seg % (segs.len() - 1);
                    segs.swap(s, s + 1);
                    ctx.fault("chan_swap", 1);
                }
            }
            ChanFault::Drop { seg } => {
                let s = *seg % segs.len();
                segs.remove(s);
                ctx.fault("chan_drop", 1);
            }
        }
    }
}

// ---------------------------------------------------------------------------
// receiving

fn te_flag(f: TEFlags) -> u8 {
    f.u8_bitmask()
}

fn recv_field<F: SimField, R: std::io::Read>(flag: FlagV, r: R) -> Result<RVal, SerializationError> {
    let int = |x: &F| Fld::int_le(&x.le_bytes());
    Ok(match flag {
        FlagV::Plain => {
            let x = F::deserialize_compressed(r)?;
            RVal::Int(int(&x), 0)
        }
        FlagV::PlainUncompressed => {
            let x = F::deserialize_uncompressed(r)?;
            RVal::Int(int(&x), 0)
        }
        FlagV::Empty => {
            let (x, f) = F::deserialize_with_flags::<_, EmptyFlags>(r)?;
            RVal::Int(int(&x), f.u8_bitmask())
        }
        FlagV::TE(_) => {
            let (x, f) = F::deserialize_with_flags::<_, TEFlags>(r)?;
            RVal::Int(int(&x), te_flag(f))
        }
        FlagV::SW(_) => {
            let (x, f) = F::deserialize_with_flags::<_, SWFlags>(r)?;
            RVal::Int(int(&x), f.u8_bitmask())
        }
    })
}

thread_local! {
    /// the elements this run's receiver obtained from streams, in arrival order (a run has its own thread)
    static RECEIVED_ELEMS: std::cell::RefCell<Vec<Element>> = std::cell::RefCell::new(Vec::new());
}

/// Echo phase: a node that has received records forwards what it received. The elements come straight out
/// of the decoder (Z = 1, the decoder's own representative) and are encoded again on the same thread, the
/// most recently received first, after whatever the decoder did last (possibly refusing a record).
fn echo_received(ctx: &mut Ctx) {
    let elems: Vec<Element> = RECEIVED_ELEMS.with(|r| std::mem::take(&mut *r.borrow_mut()));
    for e in elems.iter().rev().take(16) {
        let pt = match bridge::elem_to_pt(e) {
            Some(p) if rd::valid_representative_cheap(&p).is_ok() => p,
            _ => continue,
        };
        let want = match rd::encode(&pt) {
            Some(w) => w,
            None => continue,
        };
        let e2 = *e;
        ctx.out.steps += 1;
        match catch_unwind(AssertUnwindSafe(move || e2.vartime_compress().0)) {
            Ok(got) => {
                if got != want {
                    ctx.viol(
                        "C03",
                        "ser_bytes",
                        "op=echo shape=Element fault=false".into(),
                        format!("a received element forwarded by its receiver encodes to {} but the specification says {}", hex(&got), hex(&want)),
                    );
                } else {
                    ctx.probe("received_element_forwarded_with_same_bytes");
                }
            }
            Err(p) => ctx.viol("C03", "panic", "op=echo".into(), panic_msg(p)),
        }
    }
}

thread_local! {
    /// affine points this run's receiver obtained from streams
    static RECEIVED_AFFINE: std::cell::RefCell<Vec<AffinePoint>> = std::cell::RefCell::new(Vec::new());
}

/// A receiver that updates what it received in place (+=, -=, *=) and sends it on: the bytes must be the
/// specification's encoding of the updated element, whatever the received value remembers about its origin.
fn echo_updated_affine(ctx: &mut Ctx) {
    let pts: Vec<AffinePoint> = RECEIVED_AFFINE.with(|r| std::mem::take(&mut *r.borrow_mut()));
    let g = rd::generator().clone();
    for (n, a) in pts.iter().rev().take(9).enumerate() {
        let pt = bridge::affine_to_pt(a);
        if rd::valid_representative_cheap(&pt).is_err() {
            continue;
        }
        let (want_pt, form) = match n % 3 {
            0 => (rd::add(&pt, &g), "+="),
            1 => (rd::add(&pt, &rd::neg(&g)), "-="),
            _ => (rd::scalar_mul(&BigUint::from(3u32), &pt), "*="),
        };
        let want = match rd::encode(&want_pt) {
            Some(w) => w,
            None => continue,
        };
        let a2 = *a;
        ctx.out.steps += 1;
        let got = catch_unwind(AssertUnwindSafe(move || {
            let mut x = a2;
            let ga = <AffinePoint as AffineRepr>::generator();
            match n % 3 {
                0 => x += ga,
                1 => x -= ga,
                _ => x *= Fr::from(3u64),
            }
            let mut w = Vec::new();
            x.serialize_compressed(&mut w).map(|_| w)
        }));
        match got {
            Ok(Ok(w)) => {
                if w != want.to_vec() {
                    ctx.viol(
                        "C03",
                        "ser_bytes",
                        format!("op=echo_updated shape=Affine form={} fault=false", form),
                        format!("a received affine point updated in place with {} serialises to {} but the specification says {}", form, hex(&w), hex(&want)),
                    );
                } else {
                    ctx.probe("received_affine_point_updated_in_place_and_forwarded");
                }
            }
            Ok(Err(e)) => ctx.viol("C03", "ser_bytes", format!("op=echo_updated shape=Affine form={} fault=false", form), format!("serialisation failed: {:?}", e)),
            Err(p) => ctx.viol("C03", "panic", "op=echo_updated".into(), panic_msg(p)),
        }
    }
}

fn elem_rval(e: &Element) -> RVal {
    RECEIVED_ELEMS.with(|r| {
        let mut v = r.borrow_mut();
        if v.len() < 64 {
            v.push(*e);
        }
    });
    RVal::Pt(bridge::elem_to_pt(e).unwrap_or(Pt {
        x: BigUint::from(0u32),
        y: BigUint::from(0u32),
    }))
}
fn affine_rval(a: &AffinePoint) -> RVal {
    RECEIVED_AFFINE.with(|r| {
        let mut v = r.borrow_mut();
        if v.len() < 64 {
            v.push(*a);
        }
    });
    RVal::Pt(bridge::affine_to_pt(a))
}

fn recv_elem<R: std::io::Read>(as_: ElemAs, mode: RecvMode, r: R) -> Result<RVal, SerializationError> {
    Ok(match (as_, mode) {
        (ElemAs::Element, RecvMode::Compressed) => elem_rval(&Element::deserialize_compressed(r)?),
        (ElemAs::Element, RecvMode::WithModeValidate) => {
            elem_rval(&Element::deserialize_with_mode(r, Compress::Yes, Validate::Yes)?)
        }
        (ElemAs::Affine, RecvMode::Compressed) => affine_rval(&AffinePoint::deserialize_compressed(r)?),
        (ElemAs::Affine, RecvMode::WithModeValidate) => {
            affine_rval(&AffinePoint::deserialize_with_mode(r, Compress::Yes, Validate::Yes)?)
        }
        (ElemAs::Encoding, m) => {
            let enc = match m {
                RecvMode::Compressed => Encoding::deserialize_compressed(r)?,
                RecvMode::WithModeValidate => {
                    Encoding::deserialize_with_mode(r, Compress::Yes, Validate::Yes)?
                }
            };
            let e = enc
                .vartime_decompress()
                .map_err(|_| SerializationError::InvalidData)?;
            elem_rval(&e)
        }
    })
}

fn recv_shape(shape: &Shape, mode: RecvMode, src: &mut SimSource) -> Result<RVal, SerializationError> {
    match shape {
        Shape::Elem(as_) => recv_elem(*as_, mode, &mut *src),
        Shape::Field(w, flag) => match w {
            Which::Fq => recv_field::<Fq, _>(*flag, &mut *src),
            Which::Fr => recv_field::<Fr, _>(*flag, &mut *src),
            Which::Fp => recv_field::<Fp, _>(*flag, &mut *src),
        },
        Shape::Vec(inner) => match &**inner {
            Shape::Elem(ElemAs::Element) => {
                let v = Vec::<Element>::deserialize_compressed(&mut *src)?;
                Ok(RVal::Vec(v.iter().map(elem_rval).collect()))
            }
            Shape::Elem(ElemAs::Affine) => {
                let v = Vec::<AffinePoint>::deserialize_compressed(&mut *src)?;
                Ok(RVal::Vec(v.iter().map(affine_rval).collect()))
            }
            Shape::Elem(ElemAs::Encoding) => {
                let v = Vec::<Encoding>::deserialize_compressed(&mut *src)?;
                let mut out = Vec::new();
                for enc in v {
                    let e = enc
                        .vartime_decompress()
                        .map_err(|_| SerializationError::InvalidData)?;
                    out.push(elem_rval(&e));
                }
                Ok(RVal::Vec(out))
            }
            Shape::Field(Which::Fq, _) => {
                let v = Vec::<Fq>::deserialize_compressed(&mut *src)?;
                Ok(RVal::Vec(v.iter().map(|x| RVal::Int(bridge::fq_to_big(x), 0)).collect()))
            }
            Shape::Field(Which::Fr, _) => {
                let v = Vec::<Fr>::deserialize_compressed(&mut *src)?;
                Ok(RVal::Vec(v.iter().map(|x| RVal::Int(bridge::fr_to_big(x), 0)).collect()))
            }
            Shape::Field(Which::Fp, _) => {
                let v = Vec::<Fp>::deserialize_compressed(&mut *src)?;
                Ok(RVal::Vec(v.iter().map(|x| RVal::Int(bridge::fp_to_big(x), 0)).collect()))
            }
            _ => Err(SerializationError::NotEnoughSpace),
        },
        Shape::Opt(_) => {
            let o = Option::<AffinePoint>::deserialize_compressed(&mut *src)?;
            Ok(RVal::Opt(o.map(|a| Box::new(affine_rval(&a)))))
        }
        Shape::Tuple(_) => {
            let t = <(Element, Fq, AffinePoint, Fp)>::deserialize_compressed(&mut *src)?;
            Ok(RVal::Tuple(vec![
                elem_rval(&t.0),
                RVal::Int(bridge::fq_to_big(&t.1), 0),
                affine_rval(&t.2),
                RVal::Int(bridge::fp_to_big(&t.3), 0),
            ]))
        }
    }
}

/// The property asks for "the same element", not the same coordinates: a
/// decoder may hand out either representative of the coset as long as it is a
/// valid one. Exact equality is the fast path.
fn same_element(got: &Pt, want: &Pt) -> bool {
    got == want || (rd::equal(got, want) && rd::valid_representative_cheap(got).is_ok())
}

fn rval_same(got: &RVal, want: &RVal) -> bool {
    match (got, want) {
        (RVal::Pt(p), RVal::Pt(q)) => same_element(p, q),
        (RVal::Int(x, f), RVal::Int(y, g)) => x == y && f == g,
        (RVal::Vec(x), RVal::Vec(y)) => x.len() == y.len() && x.iter().zip(y).all(|(a, b)| rval_same(a, b)),
        (RVal::Opt(None), RVal::Opt(None)) => true,
        (RVal::Opt(Some(x)), RVal::Opt(Some(y))) => rval_same(x, y),
        (RVal::Tuple(x), RVal::Tuple(y)) => {
            x.len() == y.len() && x.iter().zip(y).all(|(a, b)| rval_same(a, b))
        }
        _ => false,
    }
}

fn rval_equiv(a: &RVal, b: &RVal) -> bool {
    match (a, b) {
        (RVal::Pt(p), RVal::Pt(q)) => rd::equal(p, q) && rd::on_curve(p) == rd::on_curve(q),
        (RVal::Int(x, f), RVal::Int(y, g)) => x == y && f == g,
        (RVal::Vec(x), RVal::Vec(y)) => x.len() == y.len() && x.iter().zip(y).all(|(a, b)| rval_equiv(a, b)),
        (RVal::Opt(None), RVal::Opt(None)) => true,
        (RVal::Opt(Some(x)), RVal::Opt(Some(y))) => rval_equiv(x, y),
        (RVal::Tuple(x), RVal::Tuple(y)) => {
            x.len() == y.len() && x.iter().zip(y).all(|(a, b)| rval_equiv(a, b))
        }
        _ => false,
    }
}

/// Which property answers for a receive-side mismatch between two values.
fn recv_blame(shape: &Shape, got: Option<&RVal>, want: Option<&RVal>) -> &'static str {
    if let (Shape::Tuple(ss), Some(RVal::Tuple(g)), Some(RVal::Tuple(w))) = (shape, got, want) {
        for ((s, a), b) in ss.iter().zip(g).zip(w) {
            if !rval_same(a, b) {
                return if s.has_elem() { "C02" } else { "C11" };
            }
        }
    }
    if shape.has_elem() {
        "C02"
    } else {
        "C11"
    }
}

fn collect_pts(v: &RVal, out: &mut Vec<Pt>) {
    match v {
        RVal::Pt(p) => out.push(p.clone()),
        RVal::Vec(vs) | RVal::Tuple(vs) => vs.iter().for_each(|x| collect_pts(x, out)),
        RVal::Opt(Some(b)) => collect_pts(b, out),
        _ => {}
    }
}
fn collect_ints(shape: &Shape, v: &RVal, out: &mut Vec<(Which, BigUint)>) {
    match (shape, v) {
        (Shape::Field(w, _), RVal::Int(x, _)) => out.push((*w, x.clone())),
        (Shape::Vec(s), RVal::Vec(vs)) => vs.iter().for_each(|x| collect_ints(s, x, out)),
        (Shape::Tuple(ss), RVal::Tuple(vs)) => {
            ss.iter().zip(vs).for_each(|(s, x)| collect_ints(s, x, out))
        }
        _ => {}
    }
}

/// The seven direct (non-stream) decoding entry points on a 32-byte window.
fn direct_entry_points(ctx: &mut Ctx, w: &[u8; 32]) {
    let expect = rd::decode(w);
    match &expect {
        Ok(_) => ctx.probe("decode_accepted"),
        Err(r) => {
            let k: &'static str = match r {
                rd::Reject::HighBits => "decode_rejected_high_bits",
                rd::Reject::NonCanonical => "decode_rejected_non_canonical",
                rd::Reject::Negative => "decode_rejected_negative",
                rd::Reject::MinusOne => "decode_rejected_minus_one",
                rd::Reject::NonSquare => "decode_rejected_non_square",
                rd::Reject::Degenerate => "decode_rejected_degenerate",
            };
            ctx.probe(k);
        }
    }
    // heterogeneous receiver node: the minimal build (32-bit fiat fields, self-contained curve) gets the
    // same datagram; it must reach the reference verdict and re-encode to the same 32 bytes
    {
        let wm = *w;
        ctx.out.steps += 1;
        let r = catch_unwind(AssertUnwindSafe(move || {
            decaf377_min::Encoding(wm)
                .vartime_decompress()
                .map(|e| e.vartime_compress().0)
        }));
        match (r, &expect) {
            (Err(p), _) => ctx.viol(
                "C02",
                "panic",
                format!("entry=minimal_build::vartime_decompress class={}", class_of(&expect)),
                format!("decoding {} panicked: {}", hex(w), panic_msg(p)),
            ),
            (Ok(Ok(b)), Ok(_)) => {
                if b != *w {
                    ctx.viol(
                        "C02",
                        "decode_value",
                        "entry=minimal_build::vartime_decompress class=valid".into(),
                        format!("minimal build decodes {} to an element that re-encodes to {}", hex(w), hex(&b)),
                    );
                } else {
                    ctx.probe("minimal_build_node_agreed");
                }
            }
            (Ok(Ok(_)), Err(r)) => ctx.viol(
                "C02",
                "accepts_invalid",
                format!("entry=minimal_build::vartime_decompress class={}", r.name()),
                format!("minimal build accepted {} although the specification rejects ({})", hex(w), r.name()),
            ),
            (Ok(Err(_)), Ok(_)) => ctx.viol(
                "C02",
                "rejects_valid",
                "entry=minimal_build::vartime_decompress class=valid".into(),
                format!("minimal build rejected the canonical encoding {}", hex(w)),
            ),
            (Ok(Err(_)), Err(_)) => ctx.probe("minimal_build_node_agreed"),
        }
    }
    let w2 = *w;
    #[allow(deprecated)]
    let calls: Vec<(&'static str, Box<dyn Fn() -> Result<Element, EncodingError>>)> = vec![
        ("vartime_decompress", Box::new(move || Encoding(w2).vartime_decompress())),
        ("decompress", Box::new(move || Encoding(w2).decompress())),
        ("Element::try_from([u8;32])", Box::new(move || Element::try_from(w2))),
        ("Element::try_from(&[u8])", Box::new(move || Element::try_from(&w2[..]))),
        ("Element::try_from(Encoding)", Box::new(move || Element::try_from(Encoding(w2)))),
        ("Element::try_from(&Encoding)", Box::new(move || Element::try_from(&Encoding(w2)))),
        (
            "Encoding::try_from(&[u8])+decompress",
            Box::new(move || Encoding::try_from(&w2[..])?.vartime_decompress()),
        ),
        (
            "Encoding::from([u8;32])+decompress",
            Box::new(move || Encoding::from(w2).vartime_decompress()),
        ),
    ];
    for (name, f) in calls {
        ctx.out.steps += 1;
        match catch_unwind(AssertUnwindSafe(|| f())) {
            Err(p) => ctx.viol(
                "C02",
                "panic",
                format!("entry={} class={}", name, class_of(&expect)),
                format!("decoding {} panicked: {}", hex(w), panic_msg(p)),
            ),
            Ok(Ok(e)) => match &expect {
                Ok(p) => {
                    let got = bridge::elem_to_pt(&e);
                    if !got.as_ref().map(|g| same_element(g, p)).unwrap_or(false) {
                        ctx.viol(
                            "C02",
                            "decode_value",
                            format!("entry={} class=valid", name),
                            format!(
                                "decoding {} gave {} but the specification gives {}",
                                hex(w),
                                got.as_ref().map(bridge::pt_hex).unwrap_or_default(),
                                bridge::pt_hex(p)
                            ),
                        );
                        flag_invalid_deser(ctx, got.as_ref(), name);
                    }
                }
                Err(r) => {
                    let got = bridge::elem_to_pt(&e);
                    ctx.viol(
                        "C02",
                        "accepts_invalid",
                        format!("entry={} class={}", name, r.name()),
                        format!("{} accepted although the specification rejects ({})", hex(w), r.name()),
                    );
                    flag_invalid_deser(ctx, got.as_ref(), name);
                }
            },
            Ok(Err(err)) => match &expect {
                Ok(_) => ctx.viol(
                    "C02",
                    "rejects_valid",
                    format!("entry={} class=valid", name),
                    format!("{} rejected ({:?}) although it is a canonical encoding", hex(w), err),
                ),
                Err(r) => {
                    if err != EncodingError::InvalidEncoding {
                        ctx.viol(
                            "C02",
                            "error_kind",
                            format!("entry={} class={}", name, r.name()),
                            format!("{} rejected with {:?}, expected InvalidEncoding", hex(w), err),
                        );
                    }
                }
            },
        }
    }
}

fn class_of(e: &Result<Pt, rd::Reject>) -> &'static str {
    match e {
        Ok(_) => "valid",
        Err(r) => r.name(),
    }
}

/// C06, deserialiser clause: an element handed out by a decoder that is not
/// the specified one must at least be a valid representative.
fn flag_invalid_deser(ctx: &mut Ctx, got: Option<&Pt>, entry: &str) {
    let bad = match got {
        None => Some("affine_conversion_panics"),
        Some(p) => rd::valid_representative(p).err(),
    };
    if let Some(reason) = bad {
        ctx.viol(
            "C06",
            "invalid_element",
            format!("source=deserialise entry={} reason={}", entry, reason),
            "a decoding entry point handed out a point that is not a valid representative".into(),
        );
    }
}

struct Received {
    shape: Shape,
    val: RVal,
    seg_intact: bool,
    sent: Option<RVal>,
}

fn receive_all(ctx: &mut Ctx, run: &IoRun, segs: &[Seg]) -> Vec<Received> {
    let mut flat: Vec<u8> = Vec::new();
    let mut starts = Vec::new();
    for s in segs {
        starts.push(flat.len());
        flat.extend_from_slice(&s.bytes);
    }
    let mut received = Vec::new();
    for (si, seg) in segs.iter().enumerate() {
        let rec = &run.records[seg.rec];
        let base = starts[si];
        let fatal_abs: Vec<usize> = rec
            .rplan
            .events
            .iter()
            .filter(|e| e.fatal())
            .map(|e| base + e.off)
            .collect();
        let mut cur = Cursor {
            data: &flat,
            pos: base,
            fatal: &fatal_abs,
        };
        let expect = wire::parse(&seg.shape, &mut cur);
        ctx.ev("recv");
        ctx.ev(&seg.shape.name());
        let (res, st, endpos) = {
            let mut src = SimSource::new(&flat, base, &rec.rplan);
            let shape = seg.shape.clone();
            let mode = rec.recv;
            let r = catch_unwind(AssertUnwindSafe(|| recv_shape(&shape, mode, &mut src)));
            (r, src.stats.clone(), src.pos)
        };
        ctx.seam_stats(&st, "r");
        let shape_name = seg.shape.name();
        let exp_class = match &expect {
            Exp::Ok(..) => "ok".to_string(),
            Exp::Invalid(r) => r.clone(),
            Exp::Io => "io".to_string(),
        };
        let io_faults_in_extent = !fatal_abs.is_empty();
        match res {
            Err(p) => {
                let prop = if seg.shape.has_elem() { "C02" } else { "C11" };
                ctx.viol(
                    prop,
                    "panic",
                    format!("op=deserialize shape={} expect={}", shape_name, exp_class),
                    panic_msg(p),
                );
            }
            Ok(Ok(val)) => {
                ctx.ev("recv_ok");
                match &expect {
                    Exp::Ok(want, end) => {
                        if !rval_same(&val, want) {
                            let prop = recv_blame(&seg.shape, Some(&val), Some(want));
                            ctx.viol(
                                prop,
                                "decode_value",
                                format!("op=deserialize shape={} class=valid", shape_name),
                                format!("stream decode of {} gave {:?}, reference {:?}",
                                    hex(&flat[base..(*end).min(flat.len())]), val, want),
                            );
                            if prop == "C02" {
                                let mut pts = Vec::new();
                                collect_pts(&val, &mut pts);
                                for p in pts {
                                    flag_invalid_deser(ctx, Some(&p), "stream");
                                }
                            }
                        } else {
                            if st.interrupted > 0 {
                                ctx.probe("interrupted_read_retried_and_record_decoded");
                            }
                            if st.short > 0 {
                                if let Shape::Vec(_) = seg.shape {
                                    if let RVal::Vec(v) = &val {
                                        if v.len() >= 2 {
                                            ctx.probe("container_element_2plus_decoded_after_short_read");
                                        }
                                    }
                                }
                                ctx.probe("record_decoded_across_short_reads");
                            }
                        }
                        if endpos != *end {
                            let prop = if seg.shape.has_elem() { "C02" } else { "C11" };
                            ctx.viol(
                                prop,
                                "framing",
                                format!("op=deserialize shape={}", shape_name),
                                format!("consumed {} bytes, the value occupies {}", endpos - base, end - base),
                            );
                        }
                        received.push(Received {
                            shape: seg.shape.clone(),
                            val,
                            seg_intact: seg.intact && !io_faults_in_extent,
                            sent: seg.sent.clone(),
                        });
                    }
                    Exp::Invalid(reason) => {
                        let prop = recv_blame(&seg.shape, None, None);
                        ctx.viol(
                            prop,
                            "accepts_invalid",
                            format!("op=deserialize shape={} class={}", shape_name, reason),
                            format!("stream decode accepted invalid data ({}): {:?}", reason, val),
                        );
                        if prop == "C02" {
                            let mut pts = Vec::new();
                            collect_pts(&val, &mut pts);
                            for p in pts {
                                flag_invalid_deser(ctx, Some(&p), "stream");
                            }
                        }
                    }
                    Exp::Io => {
                        let prop = if seg.shape.has_elem() { "C02" } else { "C11" };
                        ctx.viol(
                            prop,
                            "ok_despite_io_fault",
                            format!("op=deserialize shape={}", shape_name),
                            format!(
                                "returned Ok({:?}) although end-of-file or an I/O error lies inside the record",
                                val
                            ),
                        );
                    }
                }
            }
            Ok(Err(e)) => {
                ctx.ev("recv_err");
                ctx.ev(ser_err_class(&e));
                match &expect {
                    Exp::Ok(..) => {
                        let prop = if seg.shape.has_elem() { "C02" } else { "C11" };
                        ctx.viol(
                            prop,
                            "rejects_valid",
                            format!(
                                "op=deserialize shape={} err={} interrupted={}",
                                shape_name,
                                ser_err_class(&e),
                                st.interrupted > 0
                            ),
                            format!("valid record rejected: {:?}", e),
                        );
                    }
                    Exp::Invalid(reason) => {
                        ctx.probe("stream_rejected_invalid_record");
                        // a record refused for its content must still have been consumed whole: a consumer that
                        // goes on to the next record on the same reader (every other entry shape allows it)
                        // would otherwise read it from the middle of the refused one
                        let fixed = match &seg.shape {
                            Shape::Elem(_) => Some(32usize),
                            Shape::Field(w, _) => Some(wire::fld(*w).nbytes),
                            _ => None,
                        };
                        if let Some(n) = fixed {
                            if !io_faults_in_extent && flat.len() >= base + n {
                                if endpos != base + n {
                                    let prop = if seg.shape.has_elem() { "C02" } else { "C11" };
                                    ctx.viol(
                                        prop,
                                        "framing_after_reject",
                                        format!("op=deserialize shape={} class={}", shape_name, reason),
                                        format!(
                                            "the refused {}-byte record was left after {} bytes: the next record on this reader is read from offset {} of the refused one",
                                            n,
                                            endpos - base,
                                            endpos - base
                                        ),
                                    );
                                } else {
                                    ctx.probe("refused_record_consumed_whole");
                                }
                            }
                        }
                        let kind_ok = matches!(
                            e,
                            SerializationError::InvalidData | SerializationError::UnexpectedFlags
                        );
                        if !kind_ok && !io_faults_in_extent && matches!(seg.shape, Shape::Elem(_) | Shape::Field(..)) {
                            let prop = if seg.shape.has_elem() { "C02" } else { "C11" };
                            ctx.viol(
                                prop,
                                "error_kind",
                                format!("op=deserialize shape={} class={}", shape_name, reason),
                                format!("invalid data reported as {:?}", e),
                            );
                        }
                    }
                    Exp::Io => {
                        ctx.probe("io_fault_inside_record_reported_as_err");
                        // the transport failed; that is not the same verdict as "the peer sent invalid data"
                        // (every entry shape of the pinned tree keeps the two apart)
                        if !matches!(e, SerializationError::IoError(_)) && matches!(seg.shape, Shape::Elem(_) | Shape::Field(..)) {
                            let prop = if seg.shape.has_elem() { "C02" } else { "C11" };
                            ctx.viol(
                                prop,
                                "error_kind",
                                format!("op=deserialize shape={} class=io_fault", shape_name),
                                format!("an end-of-file or I/O error inside the record was reported as {:?}", e),
                            );
                        }
                        if rec.rplan.events.iter().any(|ev| ev.fatal() && ev.off == 31) {
                            ctx.probe("eof_or_error_at_offset_31");
                        }
                    }
                }
            }
        }
        // direct entry points and field checked-parse on the same window
        match &seg.shape {
            Shape::Elem(_) => {
                if flat.len() >= base + 32 {
                    let mut w = [0u8; 32];
                    w.copy_from_slice(&flat[base..base + 32]);
                    direct_entry_points(ctx, &w);
                }
            }
            Shape::Field(w, _) => {
                let n = wire::fld(*w).nbytes;
                if flat.len() >= base + n {
                    checked_parse(ctx, *w, &flat[base..base + n]);
                }
            }
            _ => {}
        }
    }
    received
}

/// 32-bit backend (minimal build) on the same bytes: checked parse, reduction and re-serialisation.
fn min_backend(ctx: &mut Ctx, w: Which, bytes: &[u8]) {
    let f = wire::fld(w);
    let x = Fld::int_le(bytes);
    let b = bytes.to_vec();
    let got = catch_unwind(AssertUnwindSafe(move || -> (Option<Vec<u8>>, Vec<u8>) {
        use decaf377_min as m;
        match w {
            Which::Fq => {
                let a = <[u8; 32]>::try_from(&b[..]).unwrap();
                (
                    m::Fq::from_bytes_checked(&a).ok().map(|v| v.to_bytes_le().to_vec()),
                    m::Fq::from_le_bytes_mod_order(&b).to_bytes_le().to_vec(),
                )
            }
            Which::Fr => {
                let a = <[u8; 32]>::try_from(&b[..]).unwrap();
                (
                    m::Fr::from_bytes_checked(&a).ok().map(|v| v.to_bytes_le().to_vec()),
                    m::Fr::from_le_bytes_mod_order(&b).to_bytes_le().to_vec(),
                )
            }
            Which::Fp => {
                let a = <[u8; 48]>::try_from(&b[..]).unwrap();
                (
                    m::Fp::from_bytes_checked(&a).ok().map(|v| v.to_bytes_le().to_vec()),
                    m::Fp::from_le_bytes_mod_order(&b).to_bytes_le().to_vec(),
                )
            }
        }
    }));
    ctx.out.steps += 1;
    match got {
        Err(p) => ctx.viol(
            "C11",
            "panic",
            format!("field={:?} backend=u32 op=parse", w),
            format!("{}: {}", hex(bytes), panic_msg(p)),
        ),
        Ok((checked, reduced)) => {
            let want_checked = if x < f.p { Some(f.to_le(&x)) } else { None };
            if checked != want_checked {
                ctx.viol(
                    "C11",
                    "checked_parse",
                    format!("field={:?} backend=u32 canonical={}", w, x < f.p),
                    format!("32-bit backend from_bytes_checked({}) = {:?}", hex(bytes), checked.map(|v| hex(&v))),
                );
            }
            if reduced != f.to_le(&(&x % &f.p)) {
                ctx.viol(
                    "C11",
                    "source_value",
                    format!("field={:?} backend=u32 source=from_le_bytes_mod_order", w),
                    format!("32-bit backend reduces {} to {}", hex(bytes), hex(&reduced)),
                );
            } else {
                ctx.probe("u32_backend_node_agreed");
            }
        }
    }
}

/// `from_bytes_checked` accepts exactly the integers below p (C11).
fn checked_parse(ctx: &mut Ctx, w: Which, bytes: &[u8]) {
    min_backend(ctx, w, bytes);
    let f = wire::fld(w);
    let x = Fld::int_le(bytes);
    let want = x < f.p;
    let got = catch_unwind(AssertUnwindSafe(|| match w {
        Which::Fq => Fq::checked(bytes).map(|r| r.map(|v| bridge::fq_to_big(&v))),
        Which::Fr => Fr::checked(bytes).map(|r| r.map(|v| bridge::fr_to_big(&v))),
        Which::Fp => Fp::checked(bytes).map(|r| r.map(|v| bridge::fp_to_big(&v))),
    }));
    ctx.out.steps += 1;
    match got {
        Err(p) => ctx.viol(
            "C11",
            "panic",
            format!("field={:?} op=from_bytes_checked", w),
            panic_msg(p),
        ),
        Ok(None) => {}
        Ok(Some(Ok(v))) => {
            if !want || v != x {
                ctx.viol(
                    "C11",
                    "checked_parse",
                    format!("field={:?} canonical={}", w, want),
                    format!("from_bytes_checked({}) = Ok({:x})", hex(bytes), v),
                );
            } else {
                ctx.probe("checked_parse_accepted_canonical");
            }
        }
        Ok(Some(Err(_))) => {
            if want {
                ctx.viol(
                    "C11",
                    "checked_parse",
                    format!("field={:?} canonical=true", w),
                    format!("from_bytes_checked({}) rejected a canonical value", hex(bytes)),
                );
            } else {
                ctx.probe("checked_parse_rejected_non_canonical");
            }
        }
    }
}

fn datagrams(ctx: &mut Ctx, run: &IoRun) {
    for d in &run.datagrams {
        let b = match unhex(&d.bytes) {
            Some(b) => b,
            None => continue,
        };
        ctx.ev("datagram");
        ctx.out.steps += 2;
        if b.len() == 32 {
            let mut w = [0u8; 32];
            w.copy_from_slice(&b);
            direct_entry_points(ctx, &w);
            continue;
        }
        ctx.probe("datagram_of_wrong_length");
        let b1 = b.clone();
        let r1 = catch_unwind(AssertUnwindSafe(move || Element::try_from(&b1[..]).map(|_| ())));
        let b2 = b.clone();
        let r2 = catch_unwind(AssertUnwindSafe(move || Encoding::try_from(&b2[..]).map(|_| ())));
        for (name, r) in [("Element::try_from(&[u8])", r1), ("Encoding::try_from(&[u8])", r2)] {
            match r {
                Err(p) => ctx.viol(
                    "C02",
                    "panic",
                    format!("entry={} len={}", name, b.len()),
                    panic_msg(p),
                ),
                Ok(Ok(())) => ctx.viol(
                    "C02",
                    "length_accepted",
                    format!("entry={} len={}", name, b.len()),
                    format!("slice of length {} accepted", b.len()),
                ),
                Ok(Err(EncodingError::InvalidSliceLength)) => {}
                Ok(Err(e)) => ctx.viol(
                    "C02",
                    "error_kind",
                    format!("entry={} len={}", name, b.len()),
                    format!("slice of length {} rejected with {:?}, expected InvalidSliceLength", b.len(), e),
                ),
            }
        }
    }
}

/// Uncompressed deserialisation. The pinned tree does not offer this mode
/// (`unimplemented!()`), which is accepted as "not offered". If a tree does
/// offer it, C06 applies: whatever it hands out must be a valid representative.
fn uncompressed(ctx: &mut Ctx, run: &IoRun) {
    for u in &run.uncompressed {
        let b = match unhex(&u.bytes) {
            Some(b) => b,
            None => continue,
        };
        ctx.ev("uncompressed");
        let (res, st) = {
            let mut src = SimSource::new(&b, 0, &u.rplan);
            let as_ = u.as_;
            let r = catch_unwind(AssertUnwindSafe(|| -> Result<Option<Pt>, SerializationError> {
                Ok(match as_ {
                    ElemAs::Element => bridge::elem_to_pt(&Element::deserialize_uncompressed(&mut src)?),
                    ElemAs::Affine => Some(bridge::affine_to_pt(&AffinePoint::deserialize_uncompressed(&mut src)?)),
                    ElemAs::Encoding => {
                        let enc = Encoding::deserialize_uncompressed(&mut src)?;
                        match enc.vartime_decompress() {
                            Ok(e) => bridge::elem_to_pt(&e),
                            Err(_) => return Err(SerializationError::InvalidData),
                        }
                    }
                })
            }));
            (r, src.stats.clone())
        };
        ctx.seam_stats(&st, "r");
        match res {
            Err(p) => {
                let msg = panic_msg(p);
                if msg.contains("not implemented") {
                    ctx.probe("uncompressed_mode_not_offered");
                } else {
                    ctx.viol(
                        "C02",
                        "panic",
                        format!("op=deserialize_uncompressed as={:?}", u.as_),
                        format!("{} -> panic: {}", u.bytes, msg),
                    );
                }
            }
            Ok(Err(_)) => ctx.probe("uncompressed_rejected"),
            Ok(Ok(pt)) => {
                let bad = match &pt {
                    None => Some("affine_conversion_panics"),
                    Some(p) => rd::valid_representative(p).err(),
                };
                match bad {
                    Some(reason) => ctx.viol(
                        "C06",
                        "invalid_element",
                        format!("source=deserialize_uncompressed as={:?} reason={}", u.as_, reason),
                        format!(
                            "uncompressed deserialisation of {} handed out {}",
                            u.bytes,
                            pt.as_ref().map(bridge::pt_hex).unwrap_or_default()
                        ),
                    ),
                    None => ctx.probe("uncompressed_accepted_valid_element"),
                }
            }
        }
    }
}

fn history_checks(ctx: &mut Ctx, received: &[Received]) {
    // durability / exactly-what-was-sent: intact honest records arrive as the element that was sent
    for r in received {
        if let (true, Some(sent)) = (r.seg_intact, &r.sent) {
            if !rval_equiv(sent, &r.val) {
                let prop = recv_blame(&r.shape, Some(&r.val), Some(sent));
                ctx.viol(
                    prop,
                    "history_value",
                    format!("shape={}", r.shape.name()),
                    format!("acknowledged record {:?} arrived as {:?}", sent, r.val),
                );
            } else {
                ctx.probe("intact_record_arrived_as_sent");
            }
        }
    }
    // ordering / conservation of field elements (C11: Ord is integer order, Hash consistent with Eq)
    let mut ints: Vec<(Which, BigUint)> = Vec::new();
    for r in received {
        collect_ints(&r.shape, &r.val, &mut ints);
    }
    for w in [Which::Fq, Which::Fr, Which::Fp] {
        let xs: Vec<BigUint> = ints.iter().filter(|(k, _)| *k == w).map(|(_, x)| x.clone()).collect();
        if xs.len() < 2 {
            continue;
        }
        let res = catch_unwind(AssertUnwindSafe(|| match w {
            Which::Fq => ord_hash::<Fq>(&xs),
            Which::Fr => ord_hash::<Fr>(&xs),
            Which::Fp => ord_hash::<Fp>(&xs),
        }));
        match res {
            Err(p) => ctx.viol("C11", "panic", format!("field={:?} op=ord_hash", w), panic_msg(p)),
            Ok((ord_ok, bt, hs, distinct)) => {
                if !ord_ok {
                    ctx.viol(
                        "C11",
                        "ordering",
                        format!("field={:?}", w),
                        "sorting received elements with Ord, or one of the comparison operators (<, <=, >, >=, ==, max, min, partial_cmp), does not give integer order".into(),
                    );
                }
                if bt != distinct || hs != distinct {
                    ctx.viol(
                        "C11",
                        "conservation",
                        format!("field={:?}", w),
                        format!("{} distinct integers, BTreeSet {}, HashSet {}", distinct, bt, hs),
                    );
                }
                ctx.probe("field_order_and_hash_history_checked");
            }
        }
    }
}

fn ord_hash<F: SimField>(xs: &[BigUint]) -> (bool, usize, usize, usize) {
    let f = wire::fld(F::WHICH);
    let mut vals: Vec<F> = xs
        .iter()
        .map(|x| {
            let b = f.to_le(x);
            F::le_mod(&b)
        })
        .collect();
    // every comparison operator, provided or overridden, on neighbouring pairs and on each value with itself
    let mut ops_ok = true;
    for i in 0..vals.len().min(40) {
        for j in [i, (i + 1) % vals.len()] {
            let (a, b) = (&vals[i], &vals[j]);
            let o = xs[i].cmp(&xs[j]);
            use std::cmp::Ordering::*;
            ops_ok &= a.cmp(b) == o
                && a.partial_cmp(b) == Some(o)
                && (a < b) == (o == Less)
                && (a <= b) == (o != Greater)
                && (a > b) == (o == Greater)
                && (a >= b) == (o != Less)
                && (a == b) == (o == Equal)
                && (a != b) == (o != Equal)
                && Fld::int_le(&(*a).max(*b).le_bytes()) == xs[i].clone().max(xs[j].clone())
                && Fld::int_le(&(*a).min(*b).le_bytes()) == xs[i].clone().min(xs[j].clone());
        }
    }
    vals.sort();
    let sorted_ints: Vec<BigUint> = vals.iter().map(|v| Fld::int_le(&v.le_bytes())).collect();
    let mut want = xs.to_vec();
    want.sort();
    let ord_ok = sorted_ints == want && ops_ok;
    want.dedup();
    let bt: std::collections::BTreeSet<F> = vals.iter().cloned().collect();
    let hs: std::collections::HashSet<F> = vals.iter().cloned().collect();
    (ord_ok, bt.len(), hs.len(), want.len())
}

// ---------------------------------------------------------------------------
// thread teardown: the "crash point" of a caller thread

type TeardownSlot = std::sync::Arc<std::sync::Mutex<Vec<(&'static str, &'static str, String)>>>;

/// Lives in a thread-local of the run's thread, registered before the library is first used there, so its
/// destructor runs *after* those of any thread-local state the library created on that thread. A caller
/// whose own clean-up code still decodes, encodes or parses at that point must get answers, not panics.
struct TeardownProbe {
    slot: TeardownSlot,
}

impl Drop for TeardownProbe {
    fn drop(&mut self) {
        let mut found: Vec<(&'static str, &'static str, String)> = Vec::new();
        let mut e8 = [0u8; 32];
        e8[0] = 8;
        match catch_unwind(|| Encoding(e8).vartime_decompress().ok() == Some(Element::GENERATOR)) {
            Ok(true) => {}
            Ok(false) => found.push(("C02", "op=decode_at_thread_exit", "the basepoint encoding no longer decodes to the generator while the thread shuts down".into())),
            Err(p) => found.push(("C02", "op=decode_at_thread_exit", panic_msg(p))),
        }
        match catch_unwind(|| (Element::GENERATOR + Element::GENERATOR - Element::GENERATOR).vartime_compress().0 == e8) {
            Ok(true) => {}
            Ok(false) => found.push(("C03", "op=encode_at_thread_exit", "the generator no longer encodes to 08 00..00 while the thread shuts down".into())),
            Err(p) => found.push(("C03", "op=encode_at_thread_exit", panic_msg(p))),
        }
        match catch_unwind(|| Fq::from_le_bytes_mod_order(&[1u8; 40]) == Fq::from_le_bytes_mod_order(&[1u8; 40]) && Fq::from(7u64).to_string() == "7") {
            Ok(true) => {}
            Ok(false) => found.push(("C11", "op=field_conversion_at_thread_exit", "field conversions disagree while the thread shuts down".into())),
            Err(p) => found.push(("C11", "op=field_conversion_at_thread_exit", panic_msg(p))),
        }
        if let Ok(mut g) = self.slot.lock() {
            g.extend(found);
        }
    }
}

thread_local! {
    static TEARDOWN: std::cell::RefCell<Option<TeardownProbe>> = std::cell::RefCell::new(None);
}

/// One run on its own fresh thread (so that thread-local state of the code under test starts empty),
/// with the teardown probe: violations found while the thread shuts down are added to the outcome.
pub fn execute_isolated(run: &IoRun, logging: bool) -> Outcome {
    if std::env::var_os("VERIF_NO_ISOLATE").is_some() {
        return execute(run, logging);
    }
    let slot: TeardownSlot = Default::default();
    let slot2 = slot.clone();
    let mut out = simcore::par::isolated(move || {
        TEARDOWN.with(|t| *t.borrow_mut() = Some(TeardownProbe { slot: slot2 }));
        execute(run, logging)
    });
    // the thread has been joined: every thread-local destructor has run
    let found = std::mem::take(&mut *slot.lock().unwrap());
    if found.is_empty() {
        *out.probes.entry("library_answered_during_thread_teardown").or_insert(0) += 1;
    }
    for (prop, key, detail) in found {
        out.viols.push(Viol {
            prop,
            inv: "teardown",
            key: key.into(),
            detail,
        });
    }
    out
}

pub fn execute(run: &IoRun, logging: bool) -> Outcome {
    let mut ctx = Ctx {
        out: Outcome::default(),
        trace: Fnv::new(),
        logging,
    };
    let pool = build_pool(&mut ctx, run);
    let fpool = build_fpool(&mut ctx, run);
    let mut segs = send_all(&mut ctx, run, &pool, &fpool);
    apply_channel(&mut ctx, run, &mut segs);
    RECEIVED_ELEMS.with(|r| r.borrow_mut().clear());
    RECEIVED_AFFINE.with(|r| r.borrow_mut().clear());
    let received = receive_all(&mut ctx, run, &segs);
    echo_received(&mut ctx);
    echo_updated_affine(&mut ctx);
    datagrams(&mut ctx, run);
    uncompressed(&mut ctx, run);
    history_checks(&mut ctx, &received);
    ctx.out.trace = ctx.trace.finish();
    ctx.out
}
