//! Plain data describing one simulated run of the io engine: the workload
//! (honest application + byzantine sender) and the fault plan. This is what a
//! replay file stores and what the minimiser edits.

use super::seams::{IoPlan, RngPlan};
use serde::{Deserialize, Serialize};

pub type Hex = String;

/// Operations of the honest node's application that produce pool elements.
#[derive(Clone, Debug, Serialize, Deserialize, PartialEq, Eq)]
pub enum EOp {
    Generator,
    IdentityConst,
    DefaultElem,
    ZeroTrait,
    AffineZero,
    AffineGenerator,
    GroupGenerator,
    /// decode of 32 bytes known (to the reference) to be a valid encoding
    Decode(Hex),
    /// Elligator map of a field element given by 32 LE bytes (reduced mod q)
    Elligator(Hex),
    Hash2(Hex, Hex),
    Add(usize, usize),
    AddRef(usize, usize),
    Sub(usize, usize),
    Double(usize),
    Neg(usize),
    /// P - P
    SelfSub(usize),
    /// P + (-1)*P : the (0,-1) representative of the identity
    PlusMinusOneTimes(usize),
    MulU64(usize, u64),
    /// scalar given as 32 LE bytes reduced mod r
    MulFr(usize, Hex),
    /// -(k*P)
    NegOfMul(usize, Hex),
    /// (-k)*P
    MulOfNeg(usize, Hex),
    /// Element -> AffinePoint -> Element
    AffineRoundTrip(usize),
    IntoAffine(usize),
    /// CurveGroup::normalize_batch over these pool entries; result k is taken
    NormalizeBatch(Vec<usize>, usize),
    /// ScalarMul::batch_convert_to_mul_base
    BatchConvert(Vec<usize>, usize),
    /// AffineRepr::from_random_bytes (may yield nothing: then the identity is pooled)
    FromRandomBytes(Hex),
    /// Distribution<Element> for Standard
    SampleElement(RngPlan),
    /// Distribution<AffinePoint> for Standard
    SampleAffine(RngPlan),
    /// UniformRand::rand
    UniformRand(RngPlan),
    /// mul_bigint with these u64 limbs
    MulBigint(usize, Vec<u64>),
    /// Sum over iterator of these entries
    SumOf(Vec<usize>),
    /// VariableBaseMSM::msm over (affine bases, scalars given as 32 LE bytes each)
    Msm(Vec<usize>, Vec<Hex>),
    /// Element::vartime_multiscalar_mul
    MultiscalarMul(Vec<usize>, Vec<Hex>),
    /// AffineRepr::clear_cofactor
    ClearCofactor(usize),
    /// AffineRepr::mul_by_cofactor_to_group
    MulByCofactorToGroup(usize),
    /// AffineRepr::mul_bigint
    AffineMulBigint(usize, Vec<u64>),
    /// -AffinePoint, AffinePoint * Fr, Element + AffinePoint
    AffineNeg(usize),
    AffineMulFr(usize, Hex),
    AddAffine(usize, usize),
    /// AffineRepr::into_group / From<&AffinePoint> for Element
    IntoGroup(usize),
    /// P + (P + T) where T = G + (-1)G is the (0,-1) representative of the identity: the two summands
    /// are the same element in its two representatives
    AddOtherRep(usize),
    /// P + decode(encode(P))
    AddDecoded(usize),
    /// hash_to_curve(r, -r) / hash_to_curve(r, r)
    Hash2Related(Hex, bool),
    /// a copy of the element is wiped with Zeroize and then encoded / formatted (result not judged)
    ZeroizedCopyEncoded(usize),
    /// one of the many operator impls (by value / by reference, Element / AffinePoint operands on either
    /// side, assigning forms, scalar on the left, sums over affine iterators), selected by number
    OperatorForm(u8, usize, usize, Hex),
    /// R1CS side door of the public API: an `ElementVar` allocated from this field element (witness mode
    /// when the flag is false, public input otherwise) in a fresh constraint system, then `value()`. For an
    /// invalid encoding there is no element to hand out (an error or a panic is fine; the identity is pooled)
    GadgetValue(Hex, bool),
    /// Sum over an iterator of AffinePoint values (true: of references) of these entries
    SumOfAffine(Vec<usize>, bool),
}

#[derive(Clone, Debug, Serialize, Deserialize, PartialEq, Eq)]
pub struct PoolOp {
    pub op: EOp,
    /// run the full reference validity check ([r]P) on the result
    pub full_check: bool,
}

#[derive(Clone, Copy, Debug, Serialize, Deserialize, PartialEq, Eq, PartialOrd, Ord, Hash)]
pub enum Which {
    Fq,
    Fr,
    Fp,
}

/// Sources of field elements of the honest node.
#[derive(Clone, Debug, Serialize, Deserialize, PartialEq, Eq)]
pub enum FSrc {
    LeMod(Hex),
    BeMod(Hex),
    /// PrimeField::from_le_bytes_mod_order (trait form)
    LeModTrait(Hex),
    /// canonical bytes through from_bytes_checked
    Checked(Hex),
    U64(u64),
    U128(Hex),
    /// decimal string through FromStr
    Dec(String),
    /// decimal string through BigUint -> From<BigUint>
    Big(String),
    /// PrimeField::from_bigint of canonical limbs (LE hex)
    BigInt(Hex),
    Add(usize, usize),
    Mul(usize, usize),
    Neg(usize),
    Zero,
    One,
    /// the inherent sampler `rand` (wide sample, reduce) on the simulated RNG
    RandWide(RngPlan),
    /// Distribution<F> for Standard / UniformRand (rejection sampler) on the simulated RNG
    SampleStd(RngPlan),
    /// From<BigInt<N>> of arbitrary limbs (LE hex, reduced)
    FromBigIntReduce(Hex),
}

#[derive(Clone, Debug, Serialize, Deserialize, PartialEq, Eq)]
pub struct FieldOp {
    pub which: Which,
    pub src: FSrc,
}

#[derive(Clone, Copy, Debug, Serialize, Deserialize, PartialEq, Eq, PartialOrd, Ord)]
pub enum FlagV {
    /// plain CanonicalSerialize / CanonicalDeserialize (compressed)
    Plain,
    /// plain, uncompressed mode (fields ignore the mode)
    PlainUncompressed,
    Empty,
    /// TEFlags: false = XIsPositive, true = XIsNegative
    TE(bool),
    /// SWFlags: 0 = YIsPositive, 1 = PointAtInfinity, 2 = YIsNegative
    SW(u8),
}

#[derive(Clone, Copy, Debug, Serialize, Deserialize, PartialEq, Eq, PartialOrd, Ord)]
pub enum ElemAs {
    Element,
    Affine,
    Encoding,
}

/// What is put on the stream.
#[derive(Clone, Debug, Serialize, Deserialize, PartialEq, Eq)]
pub enum Payload {
    /// honest: pool element serialised by the crate
    Elem { idx: usize, as_: ElemAs },
    /// byzantine: raw bytes written directly to the medium, read with this shape
    RawElem { bytes: Hex, as_: ElemAs },
    VecElem { idxs: Vec<usize>, as_: ElemAs },
    /// byzantine vector: honest length prefix, raw 32-byte items
    RawVecElem { items: Vec<Hex>, as_: ElemAs },
    /// (Element, Fq, AffinePoint, Fp)
    Tuple4 { e: usize, fq: usize, a: usize, fp: usize },
    /// Option<AffinePoint>
    OptAffine { idx: Option<usize> },
    Field { idx: usize, flag: FlagV },
    RawField { which: Which, bytes: Hex, flag: FlagV },
    VecField { which: Which, idxs: Vec<usize> },
    /// byzantine vector of field elements: honest length prefix, raw items
    RawVecField { which: Which, items: Vec<Hex> },
    /// serialize_uncompressed / serialize_with_mode(Compress::No) of a pool element: not read back
    ElemUncompressed { idx: usize, as_: ElemAs },
    /// Display / Debug of a pool element into the formatter sink
    Fmt {
        idx: usize,
        affine: bool,
        debug: bool,
        fail_at: Option<usize>,
        /// `{:#?}` / `{:#}`: the formatter's alternate flag
        #[serde(default)]
        alternate: bool,
    },
}

/// How the receiver pulls an element-shaped record from the stream.
#[derive(Clone, Copy, Debug, Serialize, Deserialize, PartialEq, Eq, PartialOrd, Ord)]
pub enum RecvMode {
    Compressed,
    /// deserialize_with_mode(Compress::Yes, Validate::Yes)
    WithModeValidate,
}

#[derive(Clone, Debug, Serialize, Deserialize, PartialEq, Eq)]
pub struct Record {
    pub payload: Payload,
    pub wplan: IoPlan,
    pub rplan: IoPlan,
    pub recv: RecvMode,
    pub flush_fails: bool,
}

#[derive(Clone, Debug, Serialize, Deserialize, PartialEq, Eq)]
pub enum ChanFault {
    /// flip bit `bit` (0..8*len) of segment `seg`
    BitFlip { seg: usize, bit: usize },
    /// cut the medium's tail: only the first `keep` bytes of segment `seg`
    /// and nothing after it survive (sender crash)
    Truncate { seg: usize, keep: usize },
    Duplicate { seg: usize },
    Swap { seg: usize },
    Drop { seg: usize },
}

/// One datagram handed to the slice / array conversions.
#[derive(Clone, Debug, Serialize, Deserialize, PartialEq, Eq)]
pub struct Datagram {
    pub bytes: Hex,
}

/// A byte string handed to the *uncompressed* deserialisers (a mode the
/// pinned tree does not offer: it answers `unimplemented!()`).
#[derive(Clone, Debug, Serialize, Deserialize, PartialEq, Eq)]
pub struct Uncompressed {
    pub bytes: Hex,
    pub as_: ElemAs,
    pub rplan: IoPlan,
}

#[derive(Clone, Debug, Default, Serialize, Deserialize, PartialEq, Eq)]
pub struct IoRun {
    pub pool: Vec<PoolOp>,
    pub fpool: Vec<FieldOp>,
    pub records: Vec<Record>,
    pub chan: Vec<ChanFault>,
    pub datagrams: Vec<Datagram>,
    #[serde(default)]
    pub uncompressed: Vec<Uncompressed>,
}

impl IoRun {
    pub fn fault_count(&self) -> usize {
        self.chan.len()
            + self.uncompressed.iter().map(|u| u.rplan.events.len()).sum::<usize>()
            + self
                .records
                .iter()
                .map(|r| r.wplan.events.len() + r.rplan.events.len() + r.flush_fails as usize)
                .sum::<usize>()
            + self
                .pool
                .iter()
                .map(|p| match &p.op {
                    EOp::SampleElement(pl) | EOp::SampleAffine(pl) | EOp::UniformRand(pl) => {
                        pl.windows.len()
                    }
                    _ => 0,
                })
                .sum::<usize>()
    }
}
