//! Exhaustive single-fault tier: finite sub-spaces that are enumerated
//! completely (no PRNG involved): every base record x every entry shape x
//! every single fault position of every kind.

use super::gen::Corpus;
use super::model::*;
use super::seams::*;
use super::wire::fld;
use num_bigint::BigUint;
use simcore::decaf as rd;
use simcore::digest::hex;
use simcore::field::{fq, Fld};

fn le32(x: &BigUint) -> Option<[u8; 32]> {
    let v = x.to_bytes_le();
    if v.len() > 32 {
        return None;
    }
    let mut a = [0u8; 32];
    a[..v.len()].copy_from_slice(&v);
    Some(a)
}

/// The deterministic list of base records for C02: valid encodings and one or
/// more representatives of every near-miss class named in the property.
pub fn c02_base_records(c: &Corpus) -> Vec<[u8; 32]> {
    let f = fq();
    let q = &f.p;
    let mut v: Vec<[u8; 32]> = Vec::new();
    for b in c.valid.iter().take(12) {
        v.push(*b);
    }
    for b in &c.boundary_valid {
        v.push(*b);
    }
    for b in &c.band {
        v.push(*b);
    }
    for b in c.valid.iter().skip(1).take(4) {
        let s = Fld::int_le(b);
        for x in [&s + q, f.neg(&s), &s + 1u32, &s + q + q] {
            if let Some(a) = le32(&x) {
                v.push(a);
            }
        }
        for pat in 1u8..8 {
            let mut a = *b;
            a[31] |= pat << 5;
            v.push(a);
        }
    }
    let two253: BigUint = BigUint::from(1u32) << 253;
    for x in [
        q - 1u32,
        q.clone(),
        q + 1u32,
        q - 2u32,
        two253.clone(),
        &two253 - 1u32,
        &two253 + 1u32,
        BigUint::from(0u32),
        BigUint::from(1u32),
        BigUint::from(2u32),
    ] {
        if let Some(a) = le32(&x) {
            v.push(a);
        }
    }
    v.push([0xff; 32]);
    for b in c.nonsquare.iter().take(4) {
        v.push(*b);
    }
    v
}

fn single_read_faults(span: usize) -> Vec<IoPlan> {
    let mut plans = Vec::new();
    plans.push(IoPlan::default());
    for off in 0..=span {
        plans.push(IoPlan {
            chunks: vec![],
            events: vec![IoEvent { off, ev: IoEv::Zero }],
        });
    }
    for kind in [ErrK::Other, ErrK::UnexpectedEof, ErrK::ConnectionReset] {
        for off in 0..span {
            plans.push(IoPlan {
                chunks: vec![],
                events: vec![IoEvent {
                    off,
                    ev: IoEv::Err { kind, sticky: true },
                }],
            });
        }
    }
    for k in 1..span {
        plans.push(IoPlan {
            chunks: vec![k, span],
            events: vec![],
        });
    }
    for off in 0..span {
        plans.push(IoPlan {
            chunks: vec![],
            events: vec![IoEvent {
                off,
                ev: IoEv::Interrupt(1 + (off % 3) as u8),
            }],
        });
    }
    plans.push(IoPlan {
        chunks: vec![1],
        events: vec![],
    });
    plans
}

fn single_write_faults(span: usize) -> Vec<IoPlan> {
    let mut plans = Vec::new();
    plans.push(IoPlan::default());
    for off in 0..span {
        plans.push(IoPlan {
            chunks: vec![],
            events: vec![IoEvent { off, ev: IoEv::Zero }],
        });
    }
    for kind in [ErrK::StorageFull, ErrK::Other, ErrK::BrokenPipe] {
        for off in 0..span {
            plans.push(IoPlan {
                chunks: vec![],
                events: vec![IoEvent {
                    off,
                    ev: IoEv::Err { kind, sticky: true },
                }],
            });
        }
    }
    for k in 1..span {
        plans.push(IoPlan {
            chunks: vec![k, span],
            events: vec![],
        });
    }
    for off in 0..span {
        plans.push(IoPlan {
            chunks: vec![],
            events: vec![IoEvent {
                off,
                ev: IoEv::Interrupt(1 + (off % 3) as u8),
            }],
        });
    }
    plans.push(IoPlan {
        chunks: vec![1],
        events: vec![],
    });
    plans
}

/// Every pair of events (two offsets, two kinds) under three chunkings: the
/// complete double-fault space of one record (thorough tier).
fn double_faults(span: usize, write_side: bool) -> Vec<IoPlan> {
    let kinds: Vec<IoEv> = vec![
        IoEv::Interrupt(1),
        IoEv::Interrupt(3),
        IoEv::Zero,
        IoEv::Err {
            kind: if write_side { ErrK::StorageFull } else { ErrK::ConnectionReset },
            sticky: true,
        },
        IoEv::Err {
            kind: ErrK::Other,
            sticky: false,
        },
    ];
    let mut plans = Vec::new();
    for chunks in [vec![], vec![1usize], vec![7usize, 3]] {
        for o1 in 0..span {
            for o2 in o1..=span.min(o1 + 40) {
                if o2 > span {
                    continue;
                }
                for k1 in &kinds {
                    for k2 in &kinds {
                        plans.push(IoPlan {
                            chunks: chunks.clone(),
                            events: vec![IoEvent { off: o1, ev: *k1 }, IoEvent { off: o2, ev: *k2 }],
                        });
                    }
                }
            }
        }
    }
    plans
}

fn one_record(payload: Payload, wplan: IoPlan, rplan: IoPlan, recv: RecvMode) -> Record {
    Record {
        payload,
        wplan,
        rplan,
        recv,
        flush_fails: false,
    }
}

pub fn c02_cases(c: &Corpus, quick: bool) -> Vec<IoRun> {
    let mut out = Vec::new();
    let bases = c02_base_records(c);
    let plans = single_read_faults(32);
    for (bi, b) in bases.iter().enumerate() {
        for as_ in [ElemAs::Element, ElemAs::Affine, ElemAs::Encoding] {
            for (pi, p) in plans.iter().enumerate() {
                // quick tier: full fault enumeration on a third of the base records per shape
                if quick && (bi + as_ as usize) % 3 != 0 && pi != 0 {
                    continue;
                }
                out.push(IoRun {
                    records: vec![one_record(
                        Payload::RawElem {
                            bytes: hex(b),
                            as_,
                        },
                        IoPlan::default(),
                        p.clone(),
                        if pi % 2 == 0 { RecvMode::Compressed } else { RecvMode::WithModeValidate },
                    )],
                    ..Default::default()
                });
            }
        }
    }
    if !quick {
        let dplans = double_faults(32, false);
        for b in [&c.valid[9], &bases[bases.len() - 2]] {
            for as_ in [ElemAs::Element, ElemAs::Affine, ElemAs::Encoding] {
                for p in &dplans {
                    out.push(IoRun {
                        records: vec![one_record(
                            Payload::RawElem { bytes: hex(b), as_ },
                            IoPlan::default(),
                            p.clone(),
                            RecvMode::Compressed,
                        )],
                        ..Default::default()
                    });
                }
            }
        }
    }
    // containers: every position of one invalid item in vectors of 1..=3, fault-free and with a split inside each item
    for as_ in [ElemAs::Element, ElemAs::Affine, ElemAs::Encoding] {
        for l in 1..=3usize {
            for bad in 0..=l {
                for nm in [0usize, 12, 13, 40, 44] {
                    let items: Vec<String> = (0..l)
                        .map(|i| {
                            if i == bad {
                                hex(&bases[nm % bases.len()])
                            } else {
                                hex(&c.valid[(i + 3) % c.valid.len()])
                            }
                        })
                        .collect();
                    for chunk in [0usize, 1, 7, 33] {
                        out.push(IoRun {
                            records: vec![one_record(
                                Payload::RawVecElem {
                                    items: items.clone(),
                                    as_,
                                },
                                IoPlan::default(),
                                IoPlan {
                                    chunks: if chunk == 0 { vec![] } else { vec![chunk] },
                                    events: vec![],
                                },
                                RecvMode::Compressed,
                            )],
                            ..Default::default()
                        });
                    }
                }
            }
        }
    }
    // strings whose field element has structured Montgomery limbs: every one through every entry shape
    for b in &c.mont {
        for as_ in [ElemAs::Element, ElemAs::Affine, ElemAs::Encoding] {
            out.push(IoRun {
                records: vec![one_record(
                    Payload::RawElem { bytes: hex(b), as_ },
                    IoPlan::default(),
                    IoPlan::default(),
                    RecvMode::Compressed,
                )],
                ..Default::default()
            });
        }
    }
    // encodings with a chosen discriminant (prescribed table digits of the square-root routine):
    // every one through every entry shape, intact and with the record split / interrupted
    for b in c.table_probe() {
        for as_ in [ElemAs::Element, ElemAs::Affine, ElemAs::Encoding] {
            for (k, rplan) in [
                IoPlan::default(),
                IoPlan { chunks: vec![1], events: vec![] },
                IoPlan { chunks: vec![31, 1], events: vec![] },
                IoPlan { chunks: vec![], events: vec![IoEvent { off: 16, ev: IoEv::Interrupt(2) }] },
            ]
            .into_iter()
            .enumerate()
            {
                out.push(IoRun {
                    records: vec![one_record(
                        Payload::RawElem { bytes: hex(b), as_ },
                        IoPlan::default(),
                        rplan,
                        if k % 2 == 0 { RecvMode::Compressed } else { RecvMode::WithModeValidate },
                    )],
                    ..Default::default()
                });
            }
        }
        out.push(IoRun {
            datagrams: vec![Datagram { bytes: hex(b) }],
            ..Default::default()
        });
    }
    // every datagram length 0..=80, from a valid and an invalid base
    for l in 0..=80usize {
        for base in [&c.valid[5], &bases[bases.len() - 1]] {
            let mut b = base.to_vec();
            b.resize(l, 0x5a);
            out.push(IoRun {
                datagrams: vec![Datagram { bytes: hex(&b) }],
                ..Default::default()
            });
        }
    }
    // every single-bit flip of 8 valid encodings (2 in the quick tier)
    let nflip = if quick { 2 } else { 8 };
    for b in c.valid.iter().skip(2).take(nflip) {
        for bit in 0..256usize {
            let mut x = *b;
            x[bit / 8] ^= 1 << (bit % 8);
            out.push(IoRun {
                records: vec![one_record(
                    Payload::RawElem {
                        bytes: hex(&x),
                        as_: [ElemAs::Element, ElemAs::Affine, ElemAs::Encoding][bit % 3],
                    },
                    IoPlan::default(),
                    IoPlan::default(),
                    RecvMode::Compressed,
                )],
                ..Default::default()
            });
        }
    }
    out
}

/// Small deterministic programs each ending in the element to be serialised.
pub fn c03_programs(c: &Corpus) -> Vec<Vec<PoolOp>> {
    let po = |op: EOp| PoolOp { op, full_check: false };
    let sc = |k: &BigUint| {
        let mut v = k.to_bytes_le();
        v.resize(32, 0);
        hex(&v)
    };
    let r = &simcore::field::fr().p;
    let mut v: Vec<Vec<PoolOp>> = Vec::new();
    v.push(vec![po(EOp::Generator)]);
    v.push(vec![po(EOp::IdentityConst)]);
    v.push(vec![po(EOp::DefaultElem)]);
    v.push(vec![po(EOp::AffineZero)]);
    v.push(vec![po(EOp::Generator), po(EOp::SelfSub(0))]);
    v.push(vec![po(EOp::Generator), po(EOp::PlusMinusOneTimes(0))]);
    v.push(vec![po(EOp::Generator), po(EOp::Double(0))]);
    v.push(vec![po(EOp::Generator), po(EOp::Double(0)), po(EOp::Add(0, 1))]);
    for k in [0u64, 1, 2, 3, 5] {
        v.push(vec![po(EOp::Generator), po(EOp::MulU64(0, k))]);
    }
    for k in [r - 1u32, (r - 1u32) >> 1, (r + 1u32) >> 1, BigUint::from(1u32) << 200] {
        v.push(vec![po(EOp::Generator), po(EOp::MulFr(0, sc(&k)))]);
        v.push(vec![po(EOp::Generator), po(EOp::NegOfMul(0, sc(&k)))]);
        v.push(vec![po(EOp::Generator), po(EOp::MulOfNeg(0, sc(&k)))]);
    }
    for i in [3usize, 9, 30, 50] {
        let d = EOp::Decode(hex(&c.valid[i % c.valid.len()]));
        v.push(vec![po(d.clone())]);
        v.push(vec![po(d.clone()), po(EOp::Neg(0))]);
        v.push(vec![po(d.clone()), po(EOp::Double(0)), po(EOp::AffineRoundTrip(1))]);
        v.push(vec![po(d.clone()), po(EOp::PlusMinusOneTimes(0)), po(EOp::Add(0, 1))]);
        v.push(vec![po(d), po(EOp::Generator), po(EOp::Sub(0, 1)), po(EOp::IntoAffine(2))]);
    }
    for x in [0u64, 1, 2, 7] {
        let mut b = [0u8; 32];
        b[0] = x as u8;
        v.push(vec![po(EOp::Elligator(hex(&b)))]);
    }
    for i in [3usize, 30] {
        let d = EOp::Decode(hex(&c.valid[i % c.valid.len()]));
        v.push(vec![po(d.clone()), po(EOp::AddOtherRep(0))]);
        v.push(vec![po(d.clone()), po(EOp::Double(0)), po(EOp::AddDecoded(1))]);
        v.push(vec![po(d.clone()), po(EOp::ZeroizedCopyEncoded(0)), po(EOp::Double(0))]);
        v.push(vec![po(d), po(EOp::MulU64(0, 3)), po(EOp::IntoGroup(1))]);
    }
    // a wiped value is encoded before anything else on the thread, then ordinary elements follow
    v.push(vec![po(EOp::ZeroizedCopyEncoded(0)), po(EOp::Generator), po(EOp::Double(1))]);
    v.push(vec![po(EOp::ZeroizedCopyEncoded(0)), po(EOp::Decode(hex(&c.valid[11])))]);
    for x in [1u64, 5] {
        let mut b = [0u8; 32];
        b[0] = x as u8;
        v.push(vec![po(EOp::Hash2Related(hex(&b), false))]);
        v.push(vec![po(EOp::Hash2Related(hex(&b), true))]);
    }
    v
}

pub fn c03_cases(c: &Corpus, quick: bool) -> Vec<IoRun> {
    let mut out = Vec::new();
    let progs = c03_programs(c);
    let plans = single_write_faults(32);
    if !quick {
        let dplans = double_faults(32, true);
        for prog in [&progs[7], &progs[progs.len() - 6]] {
            let last = prog.len() - 1;
            for as_ in [ElemAs::Element, ElemAs::Affine, ElemAs::Encoding] {
                for p in &dplans {
                    out.push(IoRun {
                        pool: (*prog).clone(),
                        records: vec![one_record(
                            Payload::Elem { idx: last, as_ },
                            p.clone(),
                            IoPlan::default(),
                            RecvMode::Compressed,
                        )],
                        ..Default::default()
                    });
                }
            }
        }
    }
    for (gi, prog) in progs.iter().enumerate() {
        let last = prog.len() - 1;
        for as_ in [ElemAs::Element, ElemAs::Affine, ElemAs::Encoding] {
            for (pi, p) in plans.iter().enumerate() {
                if quick && (gi + as_ as usize) % 3 != 0 && pi != 0 {
                    continue;
                }
                out.push(IoRun {
                    pool: prog.clone(),
                    records: vec![one_record(
                        Payload::Elem { idx: last, as_ },
                        p.clone(),
                        IoPlan::default(),
                        RecvMode::Compressed,
                    )],
                    ..Default::default()
                });
            }
        }
        // formatter sink: fault-free and failing at each of the first write_str calls
        for affine in [false, true] {
            for debug in [false, true] {
                for fail_at in [None, Some(0usize), Some(1), Some(2), Some(3)] {
                    out.push(IoRun {
                        pool: prog.clone(),
                        records: vec![one_record(
                            Payload::Fmt {
                                idx: last,
                                affine,
                                debug,
                                fail_at,
                                alternate: false,
                            },
                            IoPlan::default(),
                            IoPlan::default(),
                            RecvMode::Compressed,
                        )],
                        ..Default::default()
                    });
                }
            }
        }
        for affine in [false, true] {
            for debug in [false, true] {
                out.push(IoRun {
                    pool: prog.clone(),
                    records: vec![one_record(
                        Payload::Fmt {
                            idx: last,
                            affine,
                            debug,
                            fail_at: None,
                            alternate: true,
                        },
                        IoPlan::default(),
                        IoPlan::default(),
                        RecvMode::Compressed,
                    )],
                    ..Default::default()
                });
            }
        }
        // uncompressed mode of the three serialisers
        for as_ in [ElemAs::Element, ElemAs::Affine, ElemAs::Encoding] {
            for chunk in [0usize, 1] {
                out.push(IoRun {
                    pool: prog.clone(),
                    records: vec![one_record(
                        Payload::ElemUncompressed { idx: last, as_ },
                        IoPlan {
                            chunks: if chunk == 0 { vec![] } else { vec![chunk] },
                            events: vec![],
                        },
                        IoPlan::default(),
                        RecvMode::Compressed,
                    )],
                    ..Default::default()
                });
            }
        }
        // containers: the element inside Vec / Option / tuple under a one-byte-per-call sink
        for chunk in [0usize, 1, 5] {
            let w = IoPlan {
                chunks: if chunk == 0 { vec![] } else { vec![chunk] },
                events: vec![],
            };
            out.push(IoRun {
                pool: prog.clone(),
                records: vec![
                    one_record(
                        Payload::VecElem {
                            idxs: vec![last, 0, last],
                            as_: ElemAs::Element,
                        },
                        w.clone(),
                        IoPlan::default(),
                        RecvMode::Compressed,
                    ),
                    one_record(
                        Payload::OptAffine { idx: Some(last) },
                        w.clone(),
                        IoPlan::default(),
                        RecvMode::Compressed,
                    ),
                ],
                ..Default::default()
            });
        }
    }
    out
}

fn field_values(f: &Fld) -> Vec<BigUint> {
    let p = &f.p;
    vec![
        BigUint::from(0u32),
        BigUint::from(1u32),
        BigUint::from(2u32),
        p - 1u32,
        p - 2u32,
        (p - 1u32) >> 1,
        (p + 1u32) >> 1,
        BigUint::from(1u32) << (f.bits - 1),
        (BigUint::from(1u32) << (f.bits - 1)) - 1u32,
        BigUint::from(u64::MAX),
        BigUint::from(1u32) << 64,
        BigUint::parse_bytes(b"123456789012345678901234567890123456789012345678901234567890", 10).unwrap() % p,
    ]
}

const FLAGS: [FlagV; 9] = [
    FlagV::Plain,
    FlagV::PlainUncompressed,
    FlagV::Empty,
    FlagV::TE(false),
    FlagV::TE(true),
    FlagV::SW(0),
    FlagV::SW(1),
    FlagV::SW(2),
    FlagV::Plain,
];

pub fn c11_cases(quick: bool) -> Vec<IoRun> {
    let mut out = Vec::new();
    // decimal text of decimally structured integers: every power of ten below the modulus and its
    // predecessor, and d * 10^(g*j) for the natural group sizes g of limb-wise decimal conversion
    for w in [Which::Fq, Which::Fr, Which::Fp] {
        let f = fld(w);
        let ten = BigUint::from(10u32);
        let mut vals: Vec<BigUint> = Vec::new();
        let mut k = 0u32;
        while ten.pow(k) < f.p {
            vals.push(ten.pow(k));
            vals.push(ten.pow(k) - 1u32);
            k += 1;
        }
        for g in [9u32, 18, 19, 20] {
            for j in 1..=6u32 {
                for d in [1u32, 7] {
                    let v = BigUint::from(d) * ten.pow(g * j);
                    if v < f.p {
                        vals.push(v.clone());
                        vals.push(v + 5u32);
                    }
                }
            }
        }
        // and elements with structured Montgomery limbs (fixed list per field)
        let mut mr = simcore::prng::Rng::new(simcore::prng::sub_seed(0xC0FFEE, "c11/mont"));
        for _ in 0..32 {
            vals.push(super::gen::mont_value(&mut mr, f));
        }
        for chunk in vals.chunks(8) {
            out.push(IoRun {
                fpool: chunk
                    .iter()
                    .map(|v| FieldOp { which: w, src: FSrc::Checked(hex(&f.to_le(v))) })
                    .collect(),
                ..Default::default()
            });
        }
    }
    for w in [Which::Fq, Which::Fr, Which::Fp] {
        let f = fld(w);
        let vals = field_values(f);
        let wplans = single_write_faults(f.nbytes);
        let rplans = single_read_faults(f.nbytes);
        for (vi, v) in vals.iter().enumerate() {
            for (fi, flag) in FLAGS.iter().take(8).enumerate() {
                let fop = FieldOp {
                    which: w,
                    src: FSrc::Checked(hex(&f.to_le(v))),
                };
                // quick tier: full single-fault enumeration for a fourth of the (value, flag) pairs
                let full = !quick || (vi + fi) % 4 == 0;
                for (pi, p) in wplans.iter().enumerate() {
                    if !full && pi != 0 {
                        continue;
                    }
                    out.push(IoRun {
                        fpool: vec![fop.clone()],
                        records: vec![one_record(
                            Payload::Field { idx: 0, flag: *flag },
                            p.clone(),
                            IoPlan::default(),
                            RecvMode::Compressed,
                        )],
                        ..Default::default()
                    });
                }
                for (pi, p) in rplans.iter().enumerate() {
                    if pi == 0 || !full {
                        continue;
                    }
                    out.push(IoRun {
                        fpool: vec![fop.clone()],
                        records: vec![one_record(
                            Payload::Field { idx: 0, flag: *flag },
                            IoPlan::default(),
                            p.clone(),
                            RecvMode::Compressed,
                        )],
                        ..Default::default()
                    });
                }
            }
        }
        if !quick {
            let v = &vals[5];
            let fop = FieldOp {
                which: w,
                src: FSrc::Checked(hex(&f.to_le(v))),
            };
            for flag in [FlagV::Plain, FlagV::TE(true), FlagV::SW(1)] {
                for p in double_faults(f.nbytes, true) {
                    out.push(IoRun {
                        fpool: vec![fop.clone()],
                        records: vec![one_record(
                            Payload::Field { idx: 0, flag },
                            p,
                            IoPlan::default(),
                            RecvMode::Compressed,
                        )],
                        ..Default::default()
                    });
                }
                for p in double_faults(f.nbytes, false) {
                    out.push(IoRun {
                        fpool: vec![fop.clone()],
                        records: vec![one_record(
                            Payload::Field { idx: 0, flag },
                            IoPlan::default(),
                            p,
                            RecvMode::Compressed,
                        )],
                        ..Default::default()
                    });
                }
            }
        }
        // byzantine: boundary values x every pattern of the spare bits x every flag type
        let spare = 8 * f.nbytes - f.bits;
        let top = BigUint::from(1u32) << f.bits;
        let raws: Vec<BigUint> = vec![
            f.p.clone(),
            &f.p + 1u32,
            &f.p - 1u32,
            &top - 1u32,
            BigUint::from(0u32),
            BigUint::from(5u32),
            (&f.p - 1u32) >> 1,
        ];
        for x in raws {
            let mut b = x.to_bytes_le();
            b.resize(f.nbytes, 0);
            for pat in 0..(1u32 << spare) {
                let mut bb = b.clone();
                let n = bb.len();
                bb[n - 1] |= (pat as u8) << (8 - spare);
                for flag in FLAGS.iter().take(8) {
                    out.push(IoRun {
                        records: vec![one_record(
                            Payload::RawField {
                                which: w,
                                bytes: hex(&bb),
                                flag: *flag,
                            },
                            IoPlan::default(),
                            IoPlan::default(),
                            RecvMode::Compressed,
                        )],
                        ..Default::default()
                    });
                }
            }
        }
        // all-ones
        for flag in FLAGS.iter().take(8) {
            out.push(IoRun {
                records: vec![one_record(
                    Payload::RawField {
                        which: w,
                        bytes: hex(&vec![0xffu8; f.nbytes]),
                        flag: *flag,
                    },
                    IoPlan::default(),
                    IoPlan::default(),
                    RecvMode::Compressed,
                )],
                ..Default::default()
            });
        }
        // containers of field elements with one non-canonical item at every position (ark-serialize reads items with Validate::No)
        {
            let good = hex(&f.to_le(&vals[5]));
            let mut pb = f.p.to_bytes_le();
            pb.resize(f.nbytes, 0);
            let mut p1 = (&f.p + 1u32).to_bytes_le();
            p1.resize(f.nbytes, 0);
            for bad in [hex(&pb), hex(&p1), hex(&vec![0xffu8; f.nbytes])] {
                for l in 1..=3usize {
                    for pos in 0..l {
                        let items: Vec<String> = (0..l).map(|i| if i == pos { bad.clone() } else { good.clone() }).collect();
                        out.push(IoRun {
                            records: vec![one_record(
                                Payload::RawVecField { which: w, items },
                                IoPlan::default(),
                                IoPlan::default(),
                                RecvMode::Compressed,
                            )],
                            ..Default::default()
                        });
                    }
                }
            }
        }
        // reduction of structured byte strings of every length 0..=200 (pure clause, sampled), then longer ones
        // around the block boundaries a chunked or table-driven reduction would have
        let mut lens: Vec<usize> = (0..=200usize).step_by(if quick { 7 } else { 1 }).collect();
        lens.extend([255usize, 256, 257, 258, 288, 384, 385, 480, 481, 512, 513, 736, 737, 768, 1024, 1025, 2048, 2049]);
        // histories on one thread: a short string first, then a long one; a long one, then a longer one
        for (a, b) in [(32usize, 257usize), (300, 400), (8, 2049), (257, 32)] {
            let pb = f.p.to_bytes_le();
            let sa: Vec<u8> = (0..a).map(|i| pb[i % pb.len()] ^ 0x5a).collect();
            let sb: Vec<u8> = (0..b).map(|i| pb[(i * 7) % pb.len()]).collect();
            out.push(IoRun {
                fpool: vec![
                    FieldOp { which: w, src: FSrc::LeMod(hex(&sa)) },
                    FieldOp { which: w, src: FSrc::LeMod(hex(&sb)) },
                    FieldOp { which: w, src: FSrc::BeMod(hex(&sb)) },
                    FieldOp { which: w, src: FSrc::LeModTrait(hex(&sa)) },
                    FieldOp { which: w, src: FSrc::LeModTrait(hex(&sb)) },
                ],
                ..Default::default()
            });
        }
        // wide integers through From<BigUint>: 2^(64 k) + 5 for digit counts around fixed-buffer guesses
        for k in [4usize, 6, 31, 32, 33, 64, 255, 256, 257] {
            let v = (BigUint::from(1u32) << (64 * k)) + 5u32;
            out.push(IoRun {
                fpool: vec![FieldOp { which: w, src: FSrc::Big(v.to_string()) }],
                ..Default::default()
            });
        }
        for l in lens {
            let pb = f.p.to_bytes_le();
            let ones = vec![0xffu8; l];
            let pat: Vec<u8> = (0..l).map(|i| pb[i % pb.len()]).collect();
            let mut zc = pat.clone();
            for x in zc.iter_mut().take(f.nbytes.min(l)) {
                *x = 0;
            }
            let mut single = vec![0u8; l];
            if l > f.nbytes {
                single[f.nbytes] = 1;
            }
            for b in [ones, pat, zc, single] {
                out.push(IoRun {
                    fpool: vec![
                        FieldOp { which: w, src: FSrc::LeMod(hex(&b)) },
                        FieldOp { which: w, src: FSrc::BeMod(hex(&b)) },
                        FieldOp { which: w, src: FSrc::LeModTrait(hex(&b)) },
                    ],
                    ..Default::default()
                });
            }
        }
    }
    out
}

/// C06: every constructor once, fault-free, with the full membership check;
/// every sampler under every RNG fault kind at the first draw, for five window lengths.
pub fn c06_cases(c: &Corpus, quick: bool) -> Vec<IoRun> {
    let mut out = Vec::new();
    let po = |op: EOp| PoolOp { op, full_check: true };
    for prog in c03_programs(c) {
        let mut p = prog.clone();
        for x in p.iter_mut() {
            x.full_check = true;
        }
        out.push(IoRun { pool: p, ..Default::default() });
    }
    let base = vec![po(EOp::Generator), po(EOp::Decode(hex(&c.valid[7]))), po(EOp::Double(1))];
    for op in [
        EOp::AffineGenerator,
        EOp::GroupGenerator,
        EOp::ZeroTrait,
        EOp::NormalizeBatch(vec![0, 1, 2], 2),
        EOp::NormalizeBatch(vec![2], 0),
        EOp::BatchConvert(vec![0, 1, 2], 1),
        EOp::BatchConvert(vec![2, 2], 1),
        EOp::IntoAffine(2),
        EOp::SumOf(vec![0, 1, 2]),
        EOp::SumOf(vec![]),
        EOp::MulBigint(2, vec![u64::MAX, u64::MAX, u64::MAX, u64::MAX, 1]),
        EOp::Msm(vec![0, 1, 2], vec![]),
        EOp::Msm(vec![], vec![]),
        EOp::MultiscalarMul(vec![0, 1, 2], vec![]),
        EOp::ClearCofactor(2),
        EOp::MulByCofactorToGroup(2),
        EOp::AffineMulBigint(2, vec![5, 0, 0, 0, 7]),
        EOp::AffineNeg(2),
        EOp::AddAffine(1, 2),
        EOp::IntoGroup(2),
    ] {
        let mut p = base.clone();
        p.push(po(op));
        out.push(IoRun { pool: p, ..Default::default() });
    }
    // sums over affine iterators of lengths around block sizes
    for l in [0usize, 1, 2, 63, 64, 65, 129, 130, 131, 257] {
        for by_ref in [false, true] {
            let mut p = base.clone();
            p.push(po(EOp::SumOfAffine((0..l).map(|i| i % 3).collect(), by_ref)));
            out.push(IoRun { pool: p, ..Default::default() });
        }
    }
    // value() of gadget variables allocated from valid and invalid field elements (both allocation modes)
    {
        let f = fq();
        let mut ss: Vec<[u8; 32]> = c.valid.iter().take(6).cloned().collect();
        ss.extend(c.nonsquare.iter().take(6).cloned());
        ss.extend(c.table_probe().iter().take(8).cloned());
        for k in [1u32, 2, 3, 4, 6, 9, 18] {
            ss.push(le32(&BigUint::from(k)).unwrap());
        }
        ss.push(le32(&(&f.p - 1u32)).unwrap());
        for b in ss {
            for input in [false, true] {
                let mut p = base.clone();
                p.push(po(EOp::GadgetValue(hex(&b), input)));
                out.push(IoRun { pool: p, ..Default::default() });
            }
        }
    }
    // every operator form on (identity-ish, generator-ish, generic) operand pairs, with a zero, a small and a large scalar
    for k in 0u8..24 {
        for (i, j) in [(0usize, 0usize), (0, 2), (2, 0), (1, 2), (2, 2)] {
            for h in ["00", "05", "ffffffffffffffffffffffffffffffffffffffffffffffffffffffffffffff0f"] {
                let mut p = base.clone();
                p.push(po(EOp::OperatorForm(k, i, j, h.into())));
                out.push(IoRun { pool: p, ..Default::default() });
            }
        }
    }
    // long batches (block-wise implementations of Montgomery's trick): lengths around multiples of 64, mixed Z
    for l in [63usize, 64, 65, 66, 128, 129, 130, 200] {
        let idxs: Vec<usize> = (0..l).map(|i| i % 3).collect();
        let mut ks = vec![0usize, l - 1, l / 2];
        ks.extend((64..l).step_by(64));
        for k in ks {
            for conv in [true, false] {
                let mut p = base.clone();
                p.push(po(if conv {
                    EOp::BatchConvert(idxs.clone(), k)
                } else {
                    EOp::NormalizeBatch(idxs.clone(), k)
                }));
                out.push(IoRun { pool: p, ..Default::default() });
            }
        }
    }
    // affine conversion of every identity representative the application can reach
    for prog in [
        vec![po(EOp::Generator), po(EOp::PlusMinusOneTimes(0)), po(EOp::IntoAffine(1))],
        vec![po(EOp::Generator), po(EOp::MulU64(0, 5)), po(EOp::PlusMinusOneTimes(1)), po(EOp::IntoAffine(2))],
        vec![po(EOp::Decode(hex(&c.valid[9]))), po(EOp::PlusMinusOneTimes(0)), po(EOp::AffineRoundTrip(1))],
        vec![po(EOp::Generator), po(EOp::PlusMinusOneTimes(0)), po(EOp::NormalizeBatch(vec![1, 0], 0))],
        vec![po(EOp::Generator), po(EOp::SelfSub(0)), po(EOp::IntoAffine(1))],
        vec![po(EOp::IdentityConst), po(EOp::IntoAffine(0))],
    ] {
        out.push(IoRun { pool: prog, ..Default::default() });
    }
    // an entropy source that dries up after n words (try_fill_bytes starts failing in mid-use)
    for n in [1u64, 4, 5, 6, 9, 10, 11, 15, 20, 40] {
        for which in 0..3 {
            let plan = RngPlan {
                seed: 4242 + n,
                windows: vec![],
                try_fill_fails: false,
                try_fill_fails_after: Some(n),
            };
            let op = match which {
                0 => EOp::SampleElement(plan),
                1 => EOp::SampleAffine(plan),
                _ => EOp::UniformRand(plan),
            };
            out.push(IoRun { pool: vec![po(op)], ..Default::default() });
        }
    }
    // from_random_bytes on structured strings: every valid corpus encoding, counters, lengths
    let mut frb: Vec<Vec<u8>> = Vec::new();
    for b in c.valid.iter().take(if quick { 24 } else { 72 }) {
        frb.push(b.to_vec());
    }
    for i in 0..(if quick { 64u32 } else { 512 }) {
        let mut b = vec![0u8; 32];
        b[..4].copy_from_slice(&i.to_le_bytes());
        b[31] = (i % 32) as u8;
        frb.push(b);
    }
    for l in [0usize, 1, 16, 31, 33, 48, 64] {
        frb.push(vec![3u8; l]);
    }
    for b in frb {
        out.push(IoRun {
            pool: vec![po(EOp::FromRandomBytes(hex(&b)))],
            ..Default::default()
        });
    }
    let faults = vec![
        RngFault::Zero,
        RngFault::Ones,
        RngFault::Stuck(1),
        RngFault::Stuck(0x0123_4567_89ab_cdef),
        RngFault::Cycle(vec![0x01]),
        RngFault::Cycle(vec![0x10, 0x32]),
        RngFault::Cycle(vec![1, 2, 3, 4, 5, 6, 7, 8]),
        RngFault::LowEntropy([0, 1, 2, 3]),
        RngFault::LowEntropy([0x00, 0xff, 0x0f, 0xf0]),
        RngFault::Counter(0),
        RngFault::Counter(u64::MAX - 3),
    ];
    let lens: &[u64] = if quick { &[1, 50, 5000] } else { &[1, 5, 50, 500, 5000] };
    for (k, fault) in faults.iter().enumerate() {
        for len in lens {
            for start in [0u64, 3] {
                let plan = RngPlan {
                    seed: 1000 + k as u64 * 17 + len + start,
                    windows: vec![RngWindow {
                        start,
                        len: *len,
                        fault: fault.clone(),
                    }],
                    try_fill_fails: k % 2 == 0,
                    try_fill_fails_after: None,
                };
                for which in 0..3 {
                    let op = match which {
                        0 => EOp::SampleElement(plan.clone()),
                        1 => EOp::SampleAffine(plan.clone()),
                        _ => EOp::UniformRand(plan.clone()),
                    };
                    out.push(IoRun {
                        pool: vec![po(op)],
                        ..Default::default()
                    });
                }
            }
        }
    }
    // uncompressed deserialisers: x || y of valid points, of their translates by the points of order 4 and 2,
    // of the points of order 4 themselves, and short / long strings
    {
        let f = fq();
        let xy = |p: &rd::Pt| {
            let mut b = f.to_le(&p.x);
            b.extend_from_slice(&f.to_le(&p.y));
            b
        };
        let mut strings: Vec<Vec<u8>> = vec![xy(&rd::t4()), xy(&rd::neg(&rd::t4())), xy(&rd::t2()), xy(&rd::identity()), vec![], vec![0u8; 64], vec![0xffu8; 64]];
        for v in c.valid.iter().take(if quick { 8 } else { 40 }) {
            let p = rd::decode(v).unwrap();
            strings.push(xy(&p));
            strings.push(xy(&rd::add(&p, &rd::t4())));
            strings.push(xy(&rd::add(&p, &rd::t2())));
            strings.push(v.to_vec());
        }
        for b in strings {
            for as_ in [ElemAs::Element, ElemAs::Affine, ElemAs::Encoding] {
                out.push(IoRun {
                    uncompressed: vec![Uncompressed {
                        bytes: hex(&b),
                        as_,
                        rplan: IoPlan::default(),
                    }],
                    ..Default::default()
                });
            }
        }
    }
    out
}
