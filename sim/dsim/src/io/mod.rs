//! Engine `iosim`: element / field codecs between a faulty byte sink, a faulty
//! medium and a faulty byte source, fed by an honest and a byzantine sender,
//! plus element sources driven by a faulty RNG. Decides C02, C03, C06, C11.

pub mod enumerate;
pub mod exec;
pub mod gen;
pub mod model;
pub mod seams;
pub mod wire;

use crate::common::{self, Opts};
use exec::{execute, Outcome, Viol};
use model::*;
use serde::{Deserialize, Serialize};
use serde_json::json;
use simcore::evidence::Coverage;
use simcore::prng::{run_seed, sub_seed, Rng};
use std::collections::{BTreeMap, BTreeSet};

#[derive(Serialize, Deserialize, Clone, Debug)]
pub struct Replay {
    pub engine: String,
    pub property: String,
    pub invariant: String,
    pub key: String,
    pub detail: String,
    pub seed: u64,
    pub origin: String,
    pub original_size: usize,
    pub run: IoRun,
    /// Set when the violation only shows after the runs that preceded it in the batch (the code under
    /// test keeps process-global state): the replay then re-executes the batch prefix sequentially.
    #[serde(default)]
    pub prefix: Option<Prefix>,
    /// configuration of the code under test that showed it: "release" or "checked" (debug assertions and
    /// overflow checks on); `./check --replay` picks the matching binary
    #[serde(default)]
    pub build: String,
}

#[derive(Serialize, Deserialize, Clone, Debug)]
pub struct Prefix {
    /// all enumeration cases first, then seeded runs 0..=seeded_upto (None: stop inside the enumeration)
    pub enumeration_upto: u64,
    pub seeded_upto: Option<u64>,
    pub quick: bool,
}

fn target_viol<'a>(o: &'a Outcome, prop: &str, inv: Option<&str>) -> Option<&'a Viol> {
    o.viols
        .iter()
        .find(|v| v.prop == prop && inv.map(|i| i == v.inv).unwrap_or(true))
}

fn size_of(run: &IoRun) -> usize {
    run.pool.len()
        + run.fpool.len()
        + run.records.len()
        + run.chan.len()
        + run.datagrams.len()
        + run.uncompressed.len()
        + run.fault_count()
        + run
            .records
            .iter()
            .map(|r| r.wplan.chunks.len() + r.rplan.chunks.len())
            .sum::<usize>()
}

/// Greedy delta debugging on the (workload, fault plan) pair: keep an edit
/// only if the same invariant of the same property still fails.
pub fn minimise(run: &IoRun, prop: &str, inv: &str) -> IoRun {
    let fails = |r: &IoRun| target_viol(&exec::execute_isolated(r, false), prop, Some(inv)).is_some();
    let mut cur = run.clone();
    let mut budget = 4000usize;
    loop {
        let before = size_of(&cur);
        macro_rules! try_edit {
            ($cand:expr) => {{
                if budget == 0 {
                    return cur;
                }
                budget -= 1;
                let cand: IoRun = $cand;
                if cand != cur && fails(&cand) {
                    cur = cand;
                    true
                } else {
                    false
                }
            }};
        }
        // drop whole items, last first
        let mut i = cur.records.len();
        while i > 0 {
            i -= 1;
            let mut c = cur.clone();
            c.records.remove(i);
            // channel faults address segments by index modulo; keep them but they may shift meaning
            try_edit!(c);
        }
        let mut i = cur.chan.len();
        while i > 0 {
            i -= 1;
            let mut c = cur.clone();
            c.chan.remove(i);
            try_edit!(c);
        }
        let mut i = cur.datagrams.len();
        while i > 0 {
            i -= 1;
            let mut c = cur.clone();
            c.datagrams.remove(i);
            try_edit!(c);
        }
        let mut i = cur.uncompressed.len();
        while i > 0 {
            i -= 1;
            let mut c = cur.clone();
            c.uncompressed.remove(i);
            try_edit!(c);
        }
        let mut i = cur.pool.len();
        while i > 0 {
            i -= 1;
            let mut c = cur.clone();
            c.pool.remove(i);
            try_edit!(c);
        }
        let mut i = cur.fpool.len();
        while i > 0 {
            i -= 1;
            let mut c = cur.clone();
            c.fpool.remove(i);
            try_edit!(c);
        }
        // simplify plans
        for ri in 0..cur.records.len() {
            for side in 0..2 {
                let n = if side == 0 {
                    cur.records[ri].wplan.events.len()
                } else {
                    cur.records[ri].rplan.events.len()
                };
                let mut k = n;
                while k > 0 {
                    k -= 1;
                    let mut c = cur.clone();
                    if side == 0 {
                        c.records[ri].wplan.events.remove(k);
                    } else {
                        c.records[ri].rplan.events.remove(k);
                    }
                    try_edit!(c);
                }
                let mut c = cur.clone();
                if side == 0 {
                    c.records[ri].wplan.chunks.clear();
                } else {
                    c.records[ri].rplan.chunks.clear();
                }
                try_edit!(c);
            }
            let mut c = cur.clone();
            c.records[ri].flush_fails = false;
            try_edit!(c);
            let mut c = cur.clone();
            c.records[ri].recv = RecvMode::Compressed;
            try_edit!(c);
            // containers: fewer items
            let mut c = cur.clone();
            match &mut c.records[ri].payload {
                Payload::VecElem { idxs, .. } | Payload::VecField { idxs, .. } => {
                    idxs.pop();
                }
                Payload::RawVecElem { items, .. } => {
                    items.pop();
                }
                _ => {}
            }
            try_edit!(c);
        }
        // simpler pool operations
        for pi in 0..cur.pool.len() {
            let mut c = cur.clone();
            c.pool[pi].full_check = false;
            try_edit!(c);
            let mut c = cur.clone();
            c.pool[pi].op = EOp::Generator;
            try_edit!(c);
            let mut c = cur.clone();
            match &mut c.pool[pi].op {
                EOp::SampleElement(p) | EOp::SampleAffine(p) | EOp::UniformRand(p) => {
                    p.windows.pop();
                    p.try_fill_fails = false;
                }
                _ => {}
            }
            try_edit!(c);
        }
        if size_of(&cur) >= before {
            break;
        }
    }
    cur
}

/// Wall-clock limit of a single run before the watchdog declares that the
/// code under test does not terminate (ordinary runs take milliseconds).
pub const HANG_LIMIT: std::time::Duration = std::time::Duration::from_secs(120);

/// Called by the watchdog: a run did not come back. The run is a pure function
/// of (seed, index), so it can be stored as a replay without having finished.
fn report_hang(prop: &str, opts: &Opts, origin: String, run: &IoRun) -> ! {
    let rp = Replay {
        engine: "iosim".into(),
        property: prop.into(),
        invariant: "no_termination".into(),
        key: "no_termination".into(),
        detail: format!("the run did not terminate within {} s", HANG_LIMIT.as_secs()),
        seed: opts.seed,
        origin: origin.clone(),
        original_size: size_of(run),
        run: run.clone(),
        prefix: None,
        build: common::build_name().into(),
    };
    let path = opts.replay_dir.join(format!("{}-{}-no_termination.json", prop, opts.seed));
    let _ = std::fs::create_dir_all(&opts.replay_dir);
    let _ = std::fs::write(&path, serde_json::to_string_pretty(&rp).unwrap());
    println!(
        "violation found at {}: no_termination :: an operation of the library did not return within {} s (not minimised: every candidate would have to time out)",
        origin,
        HANG_LIMIT.as_secs()
    );
    println!("VIOLATION property={} replay={}", prop, path.display());
    std::process::exit(simcore::EXIT_VIOLATION)
}

fn focus_runs(prop: &str, quick: bool) -> u64 {
    match (prop, quick) {
        ("C02", true) => 40_000,
        ("C03", true) => 40_000,
        ("C06", true) => 12_000,
        ("C11", true) => 60_000,
        ("C02", false) => 2_000_000,
        ("C03", false) => 1_500_000,
        ("C06", false) => 400_000,
        ("C11", false) => 4_000_000,
        _ => 10_000,
    }
}

fn required_probes(prop: &str) -> &'static [&'static str] {
    match prop {
        "C02" => &[
            "decode_accepted",
            "decode_rejected_high_bits",
            "decode_rejected_non_canonical",
            "decode_rejected_negative",
            "decode_rejected_minus_one",
            "decode_rejected_non_square",
            "interrupted_read_retried_and_record_decoded",
            "eof_or_error_at_offset_31",
            "container_element_2plus_decoded_after_short_read",
            "io_fault_inside_record_reported_as_err",
            "datagram_of_wrong_length",
            "intact_record_arrived_as_sent",
        ],
        "C03" => &[
            "sink_refused_mid_record_and_call_returned_err",
            "pool_has_2torsion_identity_representative",
            "equal_elements_sent_twice_same_bytes",
            "fmt_text_matched_reference",
            "fmt_sink_error_propagated",
            "intact_record_arrived_as_sent",
        ],
        "C06" => &[
            "sampler_rejected_a_candidate",
            "sampler_survived_fault_window_over_1000_draws",
            "full_group_membership_checked",
            "constructor_returned_none",
        ],
        "C11" => &[
            "checked_parse_accepted_canonical",
            "checked_parse_rejected_non_canonical",
            "stream_rejected_invalid_record",
            "io_fault_inside_record_reported_as_err",
            "sink_refused_mid_record_and_call_returned_err",
            "field_order_and_hash_history_checked",
            "intact_record_arrived_as_sent",
        ],
        _ => &[],
    }
}

struct Acc {
    cov: Coverage,
    digests: BTreeSet<u64>,
    other_props: BTreeMap<String, u64>,
    known_seen: BTreeSet<String>,
    found: Option<(String, IoRun, Viol)>,
    nontrivial_runs: u64,
    records_total: u64,
    records_fault_free: u64,
    sampler_calls: u64,
    sampler_draws: u64,
    log_digest: simcore::digest::Fnv,
}

fn absorb(acc: &mut Acc, prop: &str, known: &simcore::known::KnownFindings, origin: String, run: &IoRun, o: Outcome) -> bool {
    acc.cov.evaluations += 1;
    acc.cov.sim_steps += o.steps;
    for (k, v) in &o.probes {
        acc.cov.bump_probe(k, *v);
    }
    for (k, v) in &o.faults {
        acc.cov.bump_fault(k, *v);
    }
    if o.nontrivial {
        acc.nontrivial_runs += 1;
        acc.digests.insert(o.trace);
    } else {
        acc.cov.fault_free_runs += 1;
    }
    acc.records_total += o.records_total;
    acc.records_fault_free += o.records_fault_free;
    acc.sampler_calls += o.sampler_calls;
    acc.sampler_draws += o.sampler_draws;
    acc.log_digest.u64(o.trace);
    acc.log_digest.u64(o.steps);
    if acc.cov.samples.len() < 3 && o.nontrivial && run.records.len() + run.pool.len() >= 2 {
        acc.cov.samples.push(json!({"origin": origin, "run": run, "trace_digest": format!("{:016x}", o.trace)}));
    }
    for v in &o.viols {
        if v.prop != prop {
            *acc.other_props.entry(format!("{}:{}", v.prop, v.inv)).or_insert(0) += 1;
            continue;
        }
        if let Some(k) = known.matches(prop, &v.key) {
            acc.known_seen.insert(format!("{} -- {}", k.key, k.text));
            continue;
        }
        if acc.found.is_none() {
            acc.found = Some((origin.clone(), run.clone(), v.clone()));
        }
        return false;
    }
    true
}

pub fn run_check(prop: &str, opts: &Opts) -> i32 {
    let t0 = std::time::Instant::now();
    if let Err(e) = common::self_tests() {
        eprintln!("HARNESS-ERROR: self-test failed: {}", e);
        return simcore::EXIT_HARNESS;
    }
    let known = match simcore::known::KnownFindings::load(&opts.known_path) {
        Ok(k) => k,
        Err(e) => {
            eprintln!("HARNESS-ERROR: {}", e);
            return simcore::EXIT_HARNESS;
        }
    };
    let quick = opts.tier == "quick";
    println!("engine=iosim property={} tier={} VERIF_SEED={} build={}", prop, opts.tier, opts.seed, common::build_name());
    let corpus = gen::Corpus::build(0xC0FFEE); // corpus is fixed: base records do not depend on VERIF_SEED
    let mut acc = Acc {
        cov: Coverage::default(),
        digests: BTreeSet::new(),
        other_props: BTreeMap::new(),
        known_seen: BTreeSet::new(),
        found: None,
        nontrivial_runs: 0,
        records_total: 0,
        records_fault_free: 0,
        sampler_calls: 0,
        sampler_draws: 0,
        log_digest: simcore::digest::Fnv::new(),
    };
    let workers = simcore::par::workers();

    // tier 1: exhaustive single-fault enumeration
    let cases: Vec<IoRun> = match prop {
        "C02" => enumerate::c02_cases(&corpus, quick),
        "C03" => enumerate::c03_cases(&corpus, quick),
        "C11" => enumerate::c11_cases(quick),
        "C06" => enumerate::c06_cases(&corpus, quick),
        _ => vec![],
    };
    let n_enum = cases.len() as u64;
    {
        let cases_ref = &cases;
        let on_hang = |i: u64| report_hang(prop, opts, format!("enumeration#{}", i), &cases_ref[i as usize]);
        simcore::par::run_batch_guarded(
            n_enum,
            workers,
            |i| {
                let t = std::time::Instant::now();
                let o = exec::execute_isolated(&cases_ref[i as usize], false);
                if std::env::var_os("VERIF_SLOW").is_some() && t.elapsed().as_millis() > 2000 {
                    eprintln!("SLOW enumeration#{} {} ms: {}", i, t.elapsed().as_millis(), serde_json::to_string(&cases_ref[i as usize]).unwrap_or_default());
                }
                o
            },
            &mut acc,
            |acc, i, o| absorb(acc, prop, &known, format!("enumeration#{}", i), &cases_ref[i as usize], o),
            Some((HANG_LIMIT, &on_hang)),
        );
    }
    let enum_done = acc.found.is_none();
    let t_enum = t0.elapsed().as_secs_f64();

    // tier 2: seeded multi-fault runs
    let n_seeded = opts.runs.unwrap_or_else(|| {
        let n = focus_runs(prop, quick);
        if opts.amend_evidence { (n / 4).max(2000) } else { n }
    });
    let batch_seed = sub_seed(opts.seed, &format!("iosim/{}", prop));
    let deadline = opts.max_seconds.map(|s| t0 + std::time::Duration::from_secs_f64(s));
    let mut seeded_done = 0u64;
    if acc.found.is_none() {
        // in slices so that a wall-clock cap can stop between slices (the set of
        // runs executed is then a prefix: still a pure function of the seed and the cap hit)
        let slice = 20_000u64;
        let mut start = 0u64;
        while start < n_seeded && acc.found.is_none() {
            let n = slice.min(n_seeded - start);
            let corpus_ref = &corpus;
            let on_hang = |i: u64| {
                let mut rng = Rng::new(run_seed(batch_seed, start + i));
                let run = gen::gen_run(&mut rng, corpus_ref, prop);
                report_hang(prop, opts, format!("seeded#{}", start + i), &run)
            };
            simcore::par::run_batch_guarded(
                n,
                workers,
                |i| {
                    let mut rng = Rng::new(run_seed(batch_seed, start + i));
                    let run = gen::gen_run(&mut rng, corpus_ref, prop);
                    let o = exec::execute_isolated(&run, false);
                    (run, o)
                },
                &mut acc,
                |acc, i, (run, o)| absorb(acc, prop, &known, format!("seeded#{}", start + i), &run, o),
                Some((HANG_LIMIT, &on_hang)),
            );
            start += n;
            seeded_done = start;
            if let Some(d) = deadline {
                if std::time::Instant::now() > d {
                    break;
                }
            }
        }
    }
    if let Some(path) = &opts.dump_digest {
        let _ = std::fs::write(path, format!("{:016x}\n", acc.log_digest.finish()));
    }

    let mut exit = simcore::EXIT_OK;
    let mut violations = 0u64;
    if let Some((origin, run, v)) = acc.found.clone() {
        violations = 1;
        println!("violation found at {}: {} {} :: {}", origin, v.inv, v.key, v.detail);
        let min = minimise(&run, prop, v.inv);
        let o = exec::execute_isolated(&min, true);
        let mv = target_viol(&o, prop, Some(v.inv)).cloned().unwrap_or(v.clone());
        let rp = Replay {
            engine: "iosim".into(),
            property: prop.into(),
            invariant: mv.inv.into(),
            key: mv.key.clone(),
            detail: mv.detail.clone(),
            seed: opts.seed,
            origin,
            original_size: size_of(&run),
            run: min.clone(),
            prefix: None,
            build: common::build_name().into(),
        };
        let path = opts
            .replay_dir
            .join(format!("{}-{}-{}.json", prop, opts.seed, mv.inv));
        let _ = std::fs::create_dir_all(&opts.replay_dir);
        if let Err(e) = std::fs::write(&path, serde_json::to_string_pretty(&rp).unwrap()) {
            eprintln!("HARNESS-ERROR: cannot write replay {}: {}", path.display(), e);
            return simcore::EXIT_HARNESS;
        }
        println!(
            "minimised from size {} to size {}; event log of the minimised run:",
            size_of(&run),
            size_of(&min)
        );
        for l in &o.log {
            println!("  {}", l);
        }
        // replay in a fresh process: must fail the same way
        let mut reproduced = matches!(common::replay_in_child("io", &path), Ok(true));
        if !reproduced {
            // The minimised run fails here but not in a fresh process: the code under test keeps state
            // across calls that earlier runs of this batch left behind (a process-global cache, a static).
            // 1. the unminimised run in a fresh process, minimised there with a small budget
            println!("note: the minimised run does not reproduce in a fresh process; the code under test keeps process-global state between runs");
            let mut rp2 = rp.clone();
            rp2.run = run.clone();
            let _ = std::fs::write(&path, serde_json::to_string_pretty(&rp2).unwrap());
            if matches!(common::replay_in_child("io", &path), Ok(true)) {
                let mut cur = run.clone();
                let mut budget = 60;
                let mut progress = true;
                while progress && budget > 0 {
                    progress = false;
                    let n = cur.records.len() + cur.fpool.len() + cur.pool.len();
                    for k in (0..n).rev() {
                        if budget == 0 {
                            break;
                        }
                        let mut cand = cur.clone();
                        if k < cand.records.len() {
                            cand.records.remove(k);
                        } else if k < cand.records.len() + cand.fpool.len() {
                            let j = k - cand.records.len();
                            cand.fpool.remove(j);
                        } else {
                            let j = k - cand.records.len() - cand.fpool.len();
                            cand.pool.remove(j);
                        }
                        budget -= 1;
                        rp2.run = cand.clone();
                        let _ = std::fs::write(&path, serde_json::to_string_pretty(&rp2).unwrap());
                        if matches!(common::replay_in_child("io", &path), Ok(true)) {
                            cur = cand;
                            progress = true;
                        }
                    }
                }
                rp2.run = cur.clone();
                let _ = std::fs::write(&path, serde_json::to_string_pretty(&rp2).unwrap());
                reproduced = matches!(common::replay_in_child("io", &path), Ok(true));
                if reproduced {
                    println!("minimised in fresh processes to size {}", size_of(&cur));
                }
            }
            // 2. the batch prefix, sequentially, in a fresh process
            if !reproduced {
                let (eu, su) = if let Some(i) = rp.origin.strip_prefix("seeded#") {
                    (n_enum.saturating_sub(1), i.parse::<u64>().ok())
                } else {
                    (rp.origin.strip_prefix("enumeration#").and_then(|i| i.parse().ok()).unwrap_or(0), None)
                };
                rp2.run = run.clone();
                rp2.prefix = Some(Prefix {
                    enumeration_upto: eu,
                    seeded_upto: su,
                    quick,
                });
                let _ = std::fs::write(&path, serde_json::to_string_pretty(&rp2).unwrap());
                reproduced = matches!(common::replay_in_child("io", &path), Ok(true));
                if reproduced {
                    println!("reproduced by re-executing the batch prefix sequentially in a fresh process (replay file carries the prefix)");
                }
            }
        }
        if reproduced {
            println!("VIOLATION property={} replay={}", prop, path.display());
            exit = simcore::EXIT_VIOLATION;
        } else {
            eprintln!("HARNESS-ERROR: replay of {} did not reproduce in a fresh process, neither alone nor after the batch prefix", path.display());
            // exit code 3: "something failed that this engine cannot replay" - the usual cause is interference
            // between the batch's worker threads through shared state of the code under test; the driver may
            // hand the decision to an engine that schedules threads (C06: concurrency pass), else it is a harness error
            return 3;
        }
    }
    for k in &acc.known_seen {
        println!("KNOWN-FINDING: property={} {}", prop, k);
    }

    // reach probes: a probe stuck at zero is a harness defect, not a verdict
    let mut missing = Vec::new();
    if exit == simcore::EXIT_OK && opts.runs.is_none() && opts.max_seconds.is_none() && !opts.amend_evidence {
        for p in required_probes(prop) {
            if acc.cov.probes.get(*p).copied().unwrap_or(0) == 0 {
                missing.push(*p);
            }
        }
        if prop == "C02" && corpus.table_probe().len() < 30 {
            missing.push("table_probe_records_found_by_root_finding");
        }
    }

    let wall = t0.elapsed().as_secs_f64();
    let mut cov = acc.cov.clone();
    cov.distinct_nontrivial = acc.digests.len() as u64;
    cov.rule = format!(
        "tier 1: complete enumeration of single-fault cases ({} cases; every base record x entry shape x every offset of every fault kind); \
         tier 2: {} seeded runs, run i uses xoshiro256** seeded with splitmix64(sub_seed(VERIF_SEED,'iosim/{}') ^ phi*(i+1)) and draws workload (pool program, field sources, 0-12 records, datagrams) \
         and fault plan (swarm-selected kinds: short/interrupted/zero/error reads and writes at byte offsets, flush failure, channel bit flip/truncate/duplicate/swap/drop, RNG windows). \
         A run is non-trivial if at least one injected fault fired inside an operation; distinct = distinct FNV-1a digests of the abstract trace (operation kinds, fault kinds fired, outcome classes; arguments erased).",
        n_enum, seeded_done, prop
    );
    cov.exhaustive = Some(false);
    cov.components_real = vec![
        "decaf377 (arkworks build, /repo working tree): all decoding entry points, CanonicalSerialize/Deserialize(WithFlags) of Element/AffinePoint/Encoding/Fq/Fr/Fp, Display/Debug, samplers, trait constructors".into(),
        "ark-serialize containers Vec/Option/tuple, ark-ec, ark-ff".into(),
    ];
    cov.components_stub = vec![
        "byte sink (SimSink), byte source (SimSource), formatter sink (SimFmtSink), medium, RNG (SimRng): simulated".into(),
    ];
    if prop == "C02" {
        cov.extra.insert("table_probe_records".into(), json!(corpus.table_probe().len()));
        cov.extra.insert("table_probe_note".into(), json!("encodings with a chosen discriminant: the ratio whose square root decoding takes is zeta^e * (odd-order element) for 40 exponent patterns e (all ones, single table windows, window boundaries, carries of the rounding halving); found by solving the quartic in u_1 over Fq (simcore::poly)"));
    }
    cov.extra.insert("enumeration_cases".into(), json!(n_enum));
    cov.extra.insert("enumeration_complete".into(), json!(enum_done));
    cov.extra.insert("enumeration_wall_s".into(), json!(t_enum));
    cov.extra.insert("seeded_runs".into(), json!(seeded_done));
    cov.extra.insert("nontrivial_runs".into(), json!(acc.nontrivial_runs));
    cov.extra.insert("records_total".into(), json!(acc.records_total));
    cov.extra.insert("records_fault_free".into(), json!(acc.records_fault_free));
    cov.extra.insert("simulated_time_note".into(), json!("the crate has no clock; simulated time is the logical step counter sim_steps (one step = one intercepted read/write/write_str/RNG draw/model operation)"));
    cov.extra.insert("other_property_violations_ignored_by_this_check".into(), json!(acc.other_props));
    cov.extra.insert("event_log_digest".into(), json!(format!("{:016x}", acc.log_digest.finish())));
    cov.extra.insert("workers".into(), json!(workers));
    if acc.sampler_calls > 0 {
        cov.extra.insert(
            "sampler_mean_healthy_draws".into(),
            json!(acc.sampler_draws as f64 / acc.sampler_calls as f64),
        );
        cov.extra.insert("sampler_calls".into(), json!(acc.sampler_calls));
    }
    cov.extra.insert("missing_probes".into(), json!(missing));
    if cov.samples.is_empty() {
        if let Some(c) = cases.first() {
            cov.samples.push(json!({"origin": "enumeration#0", "run": c}));
        }
    }
    let level = match prop {
        "C06" => "exploration",
        _ => "fault_enumeration",
    };
    let ev = simcore::evidence::Evidence {
        property_id: prop,
        tier: &opts.tier,
        seed: opts.seed,
        level,
        coverage: &cov,
        assumptions: vec![
            "reference models (simcore::field, simcore::decaf) transcribe the specification correctly; they pass the 16 Sage vectors and their own start-up self-tests".into(),
            "bridge accessors Fq::to_bytes_le, AffineRepr::xy, Element->AffinePoint are faithful (cross-checked at start-up on k*B)".into(),
            "std::io semantics: Interrupted is retryable, Ok(0) on read is EOF, Ok(0) on write is WriteZero".into(),
        ],
        wall_s: wall,
        violations,
        known_findings_seen: acc.known_seen.iter().cloned().collect(),
    };
    if opts.amend_evidence {
        let path = opts.evidence_path(prop);
        let amended = std::fs::read_to_string(&path)
            .ok()
            .and_then(|t| serde_json::from_str::<serde_json::Value>(&t).ok())
            .and_then(|mut doc| {
                let covv = doc.get_mut("coverage")?.as_object_mut()?;
                covv.insert(
                    "checked_build_pass".into(),
                    json!({
                        "build": "relcheck profile: release optimisation with debug assertions and overflow checks on",
                        "evaluations": cov.evaluations,
                        "enumeration_cases": n_enum,
                        "seeded_runs": seeded_done,
                        "distinct_nontrivial": cov.distinct_nontrivial,
                        "violations": violations,
                        "wall_s": wall,
                    }),
                );
                if violations > 0 {
                    doc["violations"] = json!(violations.max(doc["violations"].as_u64().unwrap_or(0)));
                }
                std::fs::write(&path, serde_json::to_string_pretty(&doc).ok()?).ok()
            });
        if amended.is_none() {
            eprintln!("HARNESS-ERROR: cannot amend evidence file {}", path.display());
            return simcore::EXIT_HARNESS;
        }
    } else if let Err(e) = simcore::evidence::write(&opts.evidence_path(prop), &ev) {
        eprintln!("HARNESS-ERROR: cannot write evidence: {}", e);
        return simcore::EXIT_HARNESS;
    }
    println!(
        "runs={} (enumeration {} + seeded {}) nontrivial={} distinct_traces={} steps={} wall={:.1}s other_property_violations={:?}",
        cov.evaluations, n_enum, seeded_done, acc.nontrivial_runs, cov.distinct_nontrivial, cov.sim_steps, wall, acc.other_props
    );
    if !missing.is_empty() {
        eprintln!("HARNESS-ERROR: reach probes stuck at zero: {:?}", missing);
        return simcore::EXIT_HARNESS;
    }
    // the liveness budget of the samplers (20 000 healthy draws) was derived from a mean of about 120 draws
    // per sample; if the measured mean drifts far above that, the bound's false-alarm probability is no longer
    // what DESIGN.md states, and nothing this check says about liveness may be believed
    if acc.sampler_calls > 100 && (acc.sampler_draws as f64 / acc.sampler_calls as f64) > 400.0 && exit == simcore::EXIT_OK {
        eprintln!(
            "HARNESS-ERROR: sampler needs {:.0} healthy draws per sample on average; the 20000-draw liveness budget is stale",
            acc.sampler_draws as f64 / acc.sampler_calls as f64
        );
        return simcore::EXIT_HARNESS;
    }
    exit
}

/// Replays a stored run verbatim. Exit 1 (+ VIOLATION line) if the stored
/// invariant of the stored property fails again, else 0.
pub fn replay(path: &std::path::Path, quiet: bool) -> i32 {
    let text = match std::fs::read_to_string(path) {
        Ok(t) => t,
        Err(e) => {
            eprintln!("HARNESS-ERROR: {}: {}", path.display(), e);
            return simcore::EXIT_HARNESS;
        }
    };
    let rp: Replay = match serde_json::from_str(&text) {
        Ok(r) => r,
        Err(e) => {
            eprintln!("HARNESS-ERROR: {}: {}", path.display(), e);
            return simcore::EXIT_HARNESS;
        }
    };
    if let Err(e) = common::self_tests() {
        eprintln!("HARNESS-ERROR: self-test failed: {}", e);
        return simcore::EXIT_HARNESS;
    }
    if let Some(pf) = &rp.prefix {
        // re-execute everything that preceded the run in its batch, in order, on fresh threads of this process
        let corpus = gen::Corpus::build(0xC0FFEE);
        let prop: &str = &rp.property;
        let cases: Vec<IoRun> = match prop {
            "C02" => enumerate::c02_cases(&corpus, pf.quick),
            "C03" => enumerate::c03_cases(&corpus, pf.quick),
            "C11" => enumerate::c11_cases(pf.quick),
            "C06" => enumerate::c06_cases(&corpus, pf.quick),
            _ => vec![],
        };
        for c in cases.iter().take(pf.enumeration_upto as usize + 1) {
            let _ = exec::execute_isolated(c, false);
        }
        if let Some(upto) = pf.seeded_upto {
            let batch_seed = sub_seed(rp.seed, &format!("iosim/{}", prop));
            for i in 0..upto {
                let mut rng = Rng::new(run_seed(batch_seed, i));
                let run = gen::gen_run(&mut rng, &corpus, prop);
                let _ = exec::execute_isolated(&run, false);
            }
        }
    }
    let (tx, rx) = std::sync::mpsc::channel();
    let run = rp.run.clone();
    std::thread::spawn(move || {
        // on its own fresh thread with the teardown probe, exactly as in the batch
        let _ = tx.send(exec::execute_isolated(&run, true));
    });
    let o = match rx.recv_timeout(HANG_LIMIT) {
        Ok(o) => o,
        Err(_) => {
            println!("reproduced: no_termination :: the run did not terminate within {} s", HANG_LIMIT.as_secs());
            println!("VIOLATION property={} replay={}", rp.property, path.display());
            std::process::exit(simcore::EXIT_VIOLATION);
        }
    };
    if !quiet {
        for l in &o.log {
            println!("  {}", l);
        }
    }
    match target_viol(&o, &rp.property, Some(&rp.invariant)) {
        Some(v) => {
            println!("reproduced: {} {} :: {}", v.inv, v.key, v.detail);
            println!("VIOLATION property={} replay={}", rp.property, path.display());
            simcore::EXIT_VIOLATION
        }
        None => {
            println!("replay of {}: invariant {} holds on this tree", path.display(), rp.invariant);
            simcore::EXIT_OK
        }
    }
}
