//! The simulated environment of the io engine: byte source, byte sink,
//! formatter sink and random generator. Every decision they make comes from
//! plan data (never from a PRNG at call time), so a run is a pure function of
//! its `(workload, fault plan)` pair.

use serde::{Deserialize, Serialize};
use std::io;

#[derive(Clone, Copy, Debug, Serialize, Deserialize, PartialEq, Eq, PartialOrd, Ord)]
pub enum ErrK {
    Other,
    BrokenPipe,
    ConnectionReset,
    UnexpectedEof,
    StorageFull,
    TimedOut,
    WouldBlock,
    WriteZero,
}

impl ErrK {
    pub const ALL: [ErrK; 8] = [
        ErrK::Other,
        ErrK::BrokenPipe,
        ErrK::ConnectionReset,
        ErrK::UnexpectedEof,
        ErrK::StorageFull,
        ErrK::TimedOut,
        ErrK::WouldBlock,
        ErrK::WriteZero,
    ];
    pub fn kind(self) -> io::ErrorKind {
        match self {
            ErrK::Other => io::ErrorKind::Other,
            ErrK::BrokenPipe => io::ErrorKind::BrokenPipe,
            ErrK::ConnectionReset => io::ErrorKind::ConnectionReset,
            ErrK::UnexpectedEof => io::ErrorKind::UnexpectedEof,
            ErrK::StorageFull => io::ErrorKind::StorageFull,
            ErrK::TimedOut => io::ErrorKind::TimedOut,
            ErrK::WouldBlock => io::ErrorKind::WouldBlock,
            ErrK::WriteZero => io::ErrorKind::WriteZero,
        }
    }
}

/// What happens when the stream position reaches `off` (offsets are relative
/// to the start of the record the plan belongs to) and one more byte is asked for.
#[derive(Clone, Copy, Debug, Serialize, Deserialize, PartialEq, Eq)]
pub enum IoEv {
    /// `ErrorKind::Interrupted`, this many times in a row; then proceed.
    Interrupt(u8),
    /// `Ok(0)`: end of file (reader) / device accepts nothing (writer). Permanent.
    Zero,
    /// Hard error. `sticky`: every later call at this position fails too.
    Err { kind: ErrK, sticky: bool },
}

#[derive(Clone, Copy, Debug, Serialize, Deserialize, PartialEq, Eq)]
pub struct IoEvent {
    pub off: usize,
    pub ev: IoEv,
}

impl IoEvent {
    pub fn fatal(&self) -> bool {
        !matches!(self.ev, IoEv::Interrupt(_))
    }
}

#[derive(Clone, Debug, Default, Serialize, Deserialize, PartialEq, Eq)]
pub struct IoPlan {
    /// Largest number of bytes moved per call, cycled; empty = unlimited.
    pub chunks: Vec<usize>,
    pub events: Vec<IoEvent>,
}

impl IoPlan {
    pub fn is_clean(&self) -> bool {
        self.events.is_empty()
    }
    /// First fatal event offset in `[lo, hi)`, if any.
    pub fn fatal_in(&self, lo: usize, hi: usize) -> Option<usize> {
        self.events
            .iter()
            .filter(|e| e.fatal() && e.off >= lo && e.off < hi)
            .map(|e| e.off)
            .min()
    }
}

/// Payload of the panic raised by a seam when the code under test keeps
/// calling it without any possibility of progress (e.g. a hand-written read
/// loop that retries on `Ok(0)`): a livelock, reported as a violation.
pub struct NoProgress(pub &'static str);

/// Consecutive calls that can make no progress before the seam gives up.
pub const NO_PROGRESS_LIMIT: u64 = 10_000;

#[derive(Clone, Debug, Default)]
pub struct SeamStats {
    pub calls: u64,
    pub short: u64,
    pub interrupted: u64,
    pub zero: u64,
    pub hard_err: u64,
    pub flush_calls: u64,
    /// consecutive calls that moved no byte
    pub idle: u64,
}

struct EvState {
    off: usize,
    ev: IoEv,
    left: u8,   // remaining interrupts
    dead: bool, // one-shot error already delivered
}

fn ev_states(plan: &IoPlan, base: usize) -> Vec<EvState> {
    let mut v: Vec<EvState> = plan
        .events
        .iter()
        .map(|e| EvState {
            off: base + e.off,
            ev: e.ev,
            left: match e.ev {
                IoEv::Interrupt(n) => n,
                _ => 0,
            },
            dead: false,
        })
        .collect();
    v.sort_by_key(|e| e.off);
    v
}

enum Fire {
    None,
    Interrupted,
    Zero,
    Err(io::ErrorKind),
}

fn fire(evs: &mut [EvState], pos: usize) -> Fire {
    // several events may sit at the same offset: interrupts first, then the fatal one
    for e in evs.iter_mut().filter(|e| e.off == pos) {
        if let IoEv::Interrupt(_) = e.ev {
            if e.left > 0 {
                e.left -= 1;
                return Fire::Interrupted;
            }
        }
    }
    for e in evs.iter_mut().filter(|e| e.off == pos) {
        match e.ev {
            IoEv::Interrupt(_) => {}
            IoEv::Zero => return Fire::Zero,
            IoEv::Err { kind, sticky } => {
                if !e.dead {
                    if !sticky {
                        e.dead = true;
                    }
                    return Fire::Err(kind.kind());
                }
            }
        }
    }
    Fire::None
}

fn next_event_after(evs: &[EvState], pos: usize) -> Option<usize> {
    evs.iter()
        .filter(|e| {
            e.off > pos
                && match e.ev {
                    IoEv::Interrupt(_) => e.left > 0,
                    IoEv::Zero => true,
                    IoEv::Err { .. } => !e.dead,
                }
        })
        .map(|e| e.off)
        .min()
}

/// Byte source over a medium. The plan's offsets are relative to `base`.
pub struct SimSource<'a> {
    data: &'a [u8],
    pub pos: usize,
    chunks: &'a [usize],
    evs: Vec<EvState>,
    pub stats: SeamStats,
}

impl<'a> SimSource<'a> {
    pub fn new(data: &'a [u8], base: usize, plan: &'a IoPlan) -> Self {
        SimSource {
            data,
            pos: base,
            chunks: &plan.chunks,
            evs: ev_states(plan, base),
            stats: SeamStats::default(),
        }
    }
}

impl<'a> io::Read for SimSource<'a> {
    fn read(&mut self, buf: &mut [u8]) -> io::Result<usize> {
        self.stats.calls += 1;
        if buf.is_empty() {
            return Ok(0);
        }
        match fire(&mut self.evs, self.pos) {
            Fire::Interrupted => {
                self.stats.interrupted += 1;
                return Err(io::Error::new(io::ErrorKind::Interrupted, "sim: interrupted"));
            }
            Fire::Zero => {
                self.stats.zero += 1;
                self.stats.idle += 1;
                if self.stats.idle > NO_PROGRESS_LIMIT {
                    std::panic::panic_any(NoProgress("read"));
                }
                return Ok(0);
            }
            Fire::Err(k) => {
                self.stats.hard_err += 1;
                self.stats.idle += 1;
                if self.stats.idle > NO_PROGRESS_LIMIT {
                    std::panic::panic_any(NoProgress("read"));
                }
                return Err(io::Error::new(k, "sim: injected read error"));
            }
            Fire::None => {}
        }
        let avail = self.data.len().saturating_sub(self.pos);
        if avail == 0 {
            self.stats.zero += 1;
            self.stats.idle += 1;
            if self.stats.idle > NO_PROGRESS_LIMIT {
                std::panic::panic_any(NoProgress("read"));
            }
            return Ok(0);
        }
        self.stats.idle = 0;
        let mut n = buf.len().min(avail);
        if !self.chunks.is_empty() {
            let c = self.chunks[(self.stats.calls as usize - 1) % self.chunks.len()].max(1);
            n = n.min(c);
        }
        if let Some(off) = next_event_after(&self.evs, self.pos) {
            n = n.min(off - self.pos);
        }
        if n < buf.len() {
            self.stats.short += 1;
        }
        buf[..n].copy_from_slice(&self.data[self.pos..self.pos + n]);
        self.pos += n;
        Ok(n)
    }
}

/// Byte sink. Plan offsets are relative to `base` (= length of `data` at creation).
pub struct SimSink<'a> {
    pub data: &'a mut Vec<u8>,
    base: usize,
    chunks: &'a [usize],
    evs: Vec<EvState>,
    pub flush_fails: bool,
    pub stats: SeamStats,
}

impl<'a> SimSink<'a> {
    pub fn new(data: &'a mut Vec<u8>, plan: &'a IoPlan) -> Self {
        let base = data.len();
        SimSink {
            data,
            base,
            chunks: &plan.chunks,
            evs: ev_states(plan, base),
            flush_fails: false,
            stats: SeamStats::default(),
        }
    }
    pub fn accepted(&self) -> &[u8] {
        &self.data[self.base..]
    }
}

impl<'a> io::Write for SimSink<'a> {
    fn write(&mut self, buf: &[u8]) -> io::Result<usize> {
        self.stats.calls += 1;
        if buf.is_empty() {
            return Ok(0);
        }
        let pos = self.data.len();
        match fire(&mut self.evs, pos) {
            Fire::Interrupted => {
                self.stats.interrupted += 1;
                return Err(io::Error::new(io::ErrorKind::Interrupted, "sim: interrupted"));
            }
            Fire::Zero => {
                self.stats.zero += 1;
                self.stats.idle += 1;
                if self.stats.idle > NO_PROGRESS_LIMIT {
                    std::panic::panic_any(NoProgress("write"));
                }
                return Ok(0);
            }
            Fire::Err(k) => {
                self.stats.hard_err += 1;
                self.stats.idle += 1;
                if self.stats.idle > NO_PROGRESS_LIMIT {
                    std::panic::panic_any(NoProgress("write"));
                }
                return Err(io::Error::new(k, "sim: injected write error"));
            }
            Fire::None => {}
        }
        self.stats.idle = 0;
        let mut n = buf.len();
        if !self.chunks.is_empty() {
            let c = self.chunks[(self.stats.calls as usize - 1) % self.chunks.len()].max(1);
            n = n.min(c);
        }
        if let Some(off) = next_event_after(&self.evs, pos) {
            n = n.min(off - pos);
        }
        if n < buf.len() {
            self.stats.short += 1;
        }
        self.data.extend_from_slice(&buf[..n]);
        Ok(n)
    }
    fn flush(&mut self) -> io::Result<()> {
        self.stats.flush_calls += 1;
        if self.flush_fails {
            return Err(io::Error::new(io::ErrorKind::Other, "sim: flush failed"));
        }
        Ok(())
    }
}

/// `fmt::Write` sink that fails at the n-th `write_str` (0-based), if set.
pub struct SimFmtSink {
    pub text: String,
    pub calls: usize,
    pub fail_at: Option<usize>,
    pub failed: bool,
}

impl SimFmtSink {
    pub fn new(fail_at: Option<usize>) -> Self {
        SimFmtSink {
            text: String::new(),
            calls: 0,
            fail_at,
            failed: false,
        }
    }
}

impl std::fmt::Write for SimFmtSink {
    fn write_str(&mut self, s: &str) -> std::fmt::Result {
        let c = self.calls;
        self.calls += 1;
        if self.failed || Some(c) == self.fail_at {
            self.failed = true;
            return Err(std::fmt::Error);
        }
        self.text.push_str(s);
        Ok(())
    }
}

// ---------------------------------------------------------------------------
// Random generator seam

#[derive(Clone, Debug, Serialize, Deserialize, PartialEq, Eq)]
pub enum RngFault {
    /// every 64-bit word is this value
    Stuck(u64),
    Zero,
    Ones,
    /// bytes repeat with this period (1, 2 or 8 byte cycle)
    Cycle(Vec<u8>),
    /// each byte drawn from a four-symbol alphabet
    LowEntropy([u8; 4]),
    /// words count up from this value
    Counter(u64),
}

#[derive(Clone, Debug, Serialize, Deserialize, PartialEq, Eq)]
pub struct RngWindow {
    /// index of the first faulty 64-bit draw
    pub start: u64,
    pub len: u64,
    pub fault: RngFault,
}

#[derive(Clone, Debug, Default, Serialize, Deserialize, PartialEq, Eq)]
pub struct RngPlan {
    pub seed: u64,
    pub windows: Vec<RngWindow>,
    pub try_fill_fails: bool,
    /// `try_fill_bytes` succeeds until this many 64-bit words have been drawn, then starts failing
    /// (an entropy source that dries up in mid-use)
    #[serde(default)]
    pub try_fill_fails_after: Option<u64>,
}

impl RngPlan {
    pub fn last_fault_end(&self) -> u64 {
        self.windows.iter().map(|w| w.start + w.len).max().unwrap_or(0)
    }
}

/// Payload of the panic raised when a sampler exceeds its healthy-draw budget.
pub struct RngBudgetExceeded;

pub struct SimRng<'a> {
    plan: &'a RngPlan,
    healthy: simcore::prng::Rng,
    /// 64-bit draws so far
    pub draws: u64,
    pub faulty_draws: u64,
    pub try_fill_calls: u64,
    /// max healthy draws after the last fault window before the harness gives up
    pub budget_after_faults: u64,
    cycle_pos: usize,
}

impl<'a> SimRng<'a> {
    pub fn new(plan: &'a RngPlan, budget_after_faults: u64) -> Self {
        SimRng {
            plan,
            healthy: simcore::prng::Rng::new(plan.seed),
            draws: 0,
            faulty_draws: 0,
            try_fill_calls: 0,
            budget_after_faults,
            cycle_pos: 0,
        }
    }

    fn word(&mut self) -> u64 {
        let i = self.draws;
        self.draws += 1;
        let end = self.plan.last_fault_end();
        if i >= end && i - end > self.budget_after_faults {
            std::panic::panic_any(RngBudgetExceeded);
        }
        // the healthy stream advances on every draw so that the stream after a
        // window does not depend on the window's length
        let h = self.healthy.next_u64();
        for w in &self.plan.windows {
            if i >= w.start && i < w.start + w.len {
                self.faulty_draws += 1;
                return match &w.fault {
                    RngFault::Stuck(v) => *v,
                    RngFault::Zero => 0,
                    RngFault::Ones => u64::MAX,
                    RngFault::Cycle(bytes) => {
                        let mut out = [0u8; 8];
                        for b in out.iter_mut() {
                            *b = bytes[self.cycle_pos % bytes.len().max(1)];
                            self.cycle_pos += 1;
                        }
                        u64::from_le_bytes(out)
                    }
                    RngFault::LowEntropy(alpha) => {
                        let hb = h.to_le_bytes();
                        let mut out = [0u8; 8];
                        for (o, b) in out.iter_mut().zip(hb.iter()) {
                            *o = alpha[(*b & 3) as usize];
                        }
                        u64::from_le_bytes(out)
                    }
                    RngFault::Counter(c) => c.wrapping_add(i - w.start),
                };
            }
        }
        h
    }
}

impl<'a> rand_core::RngCore for SimRng<'a> {
    fn next_u32(&mut self) -> u32 {
        self.word() as u32
    }
    fn next_u64(&mut self) -> u64 {
        self.word()
    }
    fn fill_bytes(&mut self, dest: &mut [u8]) {
        for chunk in dest.chunks_mut(8) {
            let w = self.word().to_le_bytes();
            chunk.copy_from_slice(&w[..chunk.len()]);
        }
    }
    fn try_fill_bytes(&mut self, dest: &mut [u8]) -> Result<(), rand_core::Error> {
        self.try_fill_calls += 1;
        if self.plan.try_fill_fails || self.plan.try_fill_fails_after.map(|n| self.draws >= n).unwrap_or(false) {
            return Err(rand_core::Error::new("sim: entropy source failed"));
        }
        self.fill_bytes(dest);
        Ok(())
    }
}

impl<'a> rand_core::CryptoRng for SimRng<'a> {}
