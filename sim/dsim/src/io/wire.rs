//! Reference model of the wire: shapes, the reference printer and the
//! reference parser. Written from the ark-serialize documentation (u64 LE
//! length prefix for `Vec`, one byte 0/1 for `Option`/`bool`, tuples are
//! concatenations, field elements are canonical LE with flag bits in the most
//! significant bits of the last byte) and from the decaf377 specification.

use super::model::{ElemAs, FlagV, Which};
use num_bigint::BigUint;
use simcore::decaf::{self as rd, Pt, Reject};
use simcore::field::{fp, fq, fr, Fld};

pub fn fld(w: Which) -> &'static Fld {
    match w {
        Which::Fq => fq(),
        Which::Fr => fr(),
        Which::Fp => fp(),
    }
}

#[derive(Clone, Debug, PartialEq, Eq)]
pub enum Shape {
    Elem(ElemAs),
    Field(Which, FlagV),
    Vec(Box<Shape>),
    Opt(Box<Shape>),
    Tuple(Vec<Shape>),
}

impl Shape {
    pub fn name(&self) -> String {
        match self {
            Shape::Elem(a) => format!("{:?}", a),
            Shape::Field(w, f) => format!("{:?}/{:?}", w, f),
            Shape::Vec(s) => format!("Vec<{}>", s.name()),
            Shape::Opt(s) => format!("Option<{}>", s.name()),
            Shape::Tuple(v) => format!(
                "({})",
                v.iter().map(|s| s.name()).collect::<Vec<_>>().join(",")
            ),
        }
    }
    /// C02 (element decoding) or C11 (field decoding) is responsible for the
    /// receive side of this shape; tuples contain both and are attributed by
    /// the component that differs.
    pub fn has_elem(&self) -> bool {
        match self {
            Shape::Elem(_) => true,
            Shape::Field(..) => false,
            Shape::Vec(s) | Shape::Opt(s) => s.has_elem(),
            Shape::Tuple(v) => v.iter().any(|s| s.has_elem()),
        }
    }
}

/// Model-level value travelling on the wire.
#[derive(Clone, Debug, PartialEq, Eq)]
pub enum RVal {
    /// a decaf element, by an affine representative
    Pt(Pt),
    /// field element and the flag mask (0 when the shape carries no flags)
    Int(BigUint, u8),
    Vec(Vec<RVal>),
    Opt(Option<Box<RVal>>),
    Tuple(Vec<RVal>),
}

pub fn flag_mask(f: FlagV) -> u8 {
    match f {
        FlagV::Plain | FlagV::PlainUncompressed | FlagV::Empty => 0,
        FlagV::TE(neg) => {
            if neg {
                0x80
            } else {
                0
            }
        }
        FlagV::SW(0) => 0,
        FlagV::SW(1) => 0x40,
        FlagV::SW(_) => 0x80,
    }
}

/// Expected serialisation of a model value under a shape. `None` if the model
/// value has no specified serialisation (invalid representative whose
/// specification encoding is undefined).
pub fn print(shape: &Shape, v: &RVal, out: &mut Vec<u8>) -> Option<()> {
    match (shape, v) {
        (Shape::Elem(_), RVal::Pt(p)) => {
            out.extend_from_slice(&rd::encode(p)?);
            Some(())
        }
        (Shape::Field(w, flag), RVal::Int(x, _)) => {
            let f = fld(*w);
            let mut b = f.to_le(x);
            let n = b.len();
            b[n - 1] |= flag_mask(*flag);
            out.extend_from_slice(&b);
            Some(())
        }
        (Shape::Vec(s), RVal::Vec(items)) => {
            out.extend_from_slice(&(items.len() as u64).to_le_bytes());
            for it in items {
                print(s, it, out)?;
            }
            Some(())
        }
        (Shape::Opt(s), RVal::Opt(o)) => {
            match o {
                None => out.push(0),
                Some(b) => {
                    out.push(1);
                    print(s, b, out)?;
                }
            }
            Some(())
        }
        (Shape::Tuple(ss), RVal::Tuple(vs)) if ss.len() == vs.len() => {
            for (s, v) in ss.iter().zip(vs) {
                print(s, v, out)?;
            }
            Some(())
        }
        _ => None,
    }
}

#[derive(Clone, Debug, PartialEq, Eq)]
pub enum Exp {
    /// value and end offset
    Ok(RVal, usize),
    /// data is all there but does not denote a value; the reason of the first
    /// offending component in stream order
    Invalid(String),
    /// an injected end-of-file / hard error (or the end of the medium) lies
    /// inside the bytes the value needs
    Io,
}

pub struct Cursor<'a> {
    pub data: &'a [u8],
    pub pos: usize,
    /// absolute offsets at which the source refuses to deliver another byte
    pub fatal: &'a [usize],
}

impl<'a> Cursor<'a> {
    fn take(&mut self, n: usize) -> Option<&'a [u8]> {
        let end = self.pos.checked_add(n)?;
        if end > self.data.len() {
            return None;
        }
        if self.fatal.iter().any(|f| *f >= self.pos && *f < end) {
            return None;
        }
        let s = &self.data[self.pos..end];
        self.pos = end;
        Some(s)
    }
}

#[derive(Clone, Debug, PartialEq, Eq)]
pub enum FieldReject {
    Flags,
    NonCanonical,
}

/// Reference parse of one field element window with flags.
pub fn parse_field(w: Which, flag: FlagV, bytes: &[u8]) -> Result<(BigUint, u8), FieldReject> {
    let f = fld(w);
    debug_assert_eq!(bytes.len(), f.nbytes);
    let mut b = bytes.to_vec();
    let n = b.len();
    let last = b[n - 1];
    let mask = match flag {
        FlagV::Plain | FlagV::PlainUncompressed | FlagV::Empty => 0u8,
        FlagV::TE(_) => last & 0x80,
        FlagV::SW(_) => {
            let neg = last & 0x80 != 0;
            let inf = last & 0x40 != 0;
            if neg && inf {
                return Err(FieldReject::Flags);
            }
            last & 0xC0
        }
    };
    b[n - 1] &= !mask;
    let x = Fld::int_le(&b);
    if x >= f.p {
        return Err(FieldReject::NonCanonical);
    }
    Ok((x, mask))
}

pub fn reject_name(r: Reject) -> &'static str {
    r.name()
}

/// Reference parse of a shape at the cursor.
pub fn parse(shape: &Shape, c: &mut Cursor) -> Exp {
    match shape {
        Shape::Elem(_) => {
            let w = match c.take(32) {
                Some(w) => w,
                None => return Exp::Io,
            };
            let mut a = [0u8; 32];
            a.copy_from_slice(w);
            match rd::decode(&a) {
                Ok(p) => Exp::Ok(RVal::Pt(p), c.pos),
                Err(r) => Exp::Invalid(r.name().to_string()),
            }
        }
        Shape::Field(w, flag) => {
            let n = fld(*w).nbytes;
            let b = match c.take(n) {
                Some(b) => b,
                None => return Exp::Io,
            };
            match parse_field(*w, *flag, b) {
                Ok((x, m)) => Exp::Ok(RVal::Int(x, m), c.pos),
                Err(FieldReject::Flags) => Exp::Invalid("flags".into()),
                Err(FieldReject::NonCanonical) => Exp::Invalid("non_canonical".into()),
            }
        }
        Shape::Vec(s) => {
            let lb = match c.take(8) {
                Some(b) => b,
                None => return Exp::Io,
            };
            let mut l = [0u8; 8];
            l.copy_from_slice(lb);
            let len = u64::from_le_bytes(l);
            let mut items = Vec::new();
            for _ in 0..len {
                match parse(s, c) {
                    Exp::Ok(v, _) => items.push(v),
                    other => return other,
                }
            }
            Exp::Ok(RVal::Vec(items), c.pos)
        }
        Shape::Opt(s) => {
            let b = match c.take(1) {
                Some(b) => b[0],
                None => return Exp::Io,
            };
            match b {
                0 => Exp::Ok(RVal::Opt(None), c.pos),
                1 => match parse(s, c) {
                    Exp::Ok(v, e) => Exp::Ok(RVal::Opt(Some(Box::new(v))), e),
                    other => other,
                },
                _ => Exp::Invalid("bool".into()),
            }
        }
        Shape::Tuple(ss) => {
            let mut vs = Vec::new();
            for s in ss {
                match parse(s, c) {
                    Exp::Ok(v, _) => vs.push(v),
                    other => return other,
                }
            }
            Exp::Ok(RVal::Tuple(vs), c.pos)
        }
    }
}
