//! Edge scenarios of the shared-state clause of C09 that need the *real* once_cell and real OS resources
//! (the shuttle half replaces once_cell, the Miri half has no resource limits): each runs in a process of
//! its own, started by lazy/drive.py, and prints one line `INVARIANT <name>: <detail>` on failure.
//!
//!   dsim edge --mode teardown   a caller's thread-local destructor still calls into the library while the
//!                               thread shuts down, after an ordinary first call on that thread
//!   dsim edge --mode starved    the process's first call happens while address space is short (thread
//!                               creation and large allocations fail); after the shortage is over the
//!                               library must work: faults stop, service resumes

use ark_ff::Field;
use decaf377::Fq;
use std::panic::{catch_unwind, AssertUnwindSafe};
use std::sync::{Arc, Mutex};

fn contract(num: &Fq, den: &Fq) -> Result<(), String> {
    let (flag, y) = Fq::sqrt_ratio_zeta(num, den);
    let zero = Fq::from(0u64);
    let ok = if *num == zero {
        flag && y == zero
    } else if *den == zero {
        !flag && y == zero
    } else if flag {
        y * y * *den == *num
    } else {
        y * y * *den == decaf377::ZETA * *num
    };
    if ok {
        Ok(())
    } else {
        Err(format!("sqrt_ratio_zeta({}, {}) = ({}, {}) breaks the four-case contract", num, den, flag, y))
    }
}

fn all_calls() -> Result<(), String> {
    for (a, b) in [(5u64, 7u64), (2, 3), (0, 9), (4, 0), (1, 1), (1u64 << 40, 12345)] {
        contract(&Fq::from(a), &Fq::from(b))?;
    }
    let x = Fq::from(9u64);
    if x.sqrt().map(|r| r * r) != Some(x) {
        return Err("Field::sqrt(9)^2 != 9".into());
    }
    if !matches!(Fq::from(0u64).legendre(), ark_ff::LegendreSymbol::Zero) {
        return Err("legendre(0) is not Zero".into());
    }
    let mut e8 = [0u8; 32];
    e8[0] = 8;
    if decaf377::Encoding(e8).vartime_decompress().ok() != Some(decaf377::Element::GENERATOR) {
        return Err("the basepoint encoding does not decode to the generator".into());
    }
    Ok(())
}

fn msg(p: Box<dyn std::any::Any + Send>) -> String {
    p.downcast_ref::<String>()
        .cloned()
        .or_else(|| p.downcast_ref::<&str>().map(|s| s.to_string()))
        .unwrap_or_else(|| "panic".into())
}

struct Guard(Arc<Mutex<Option<String>>>);
impl Drop for Guard {
    fn drop(&mut self) {
        let r = catch_unwind(AssertUnwindSafe(all_calls));
        let verdict = match r {
            Ok(Ok(())) => None,
            Ok(Err(e)) => Some(e),
            Err(p) => Some(format!("panic: {}", msg(p))),
        };
        *self.0.lock().unwrap() = verdict.or(Some(String::new()));
    }
}
thread_local! {
    static GUARD: std::cell::RefCell<Option<Guard>> = std::cell::RefCell::new(None);
}

fn teardown() -> Result<(), String> {
    for first_call_before_exit in [true, false] {
        let slot: Arc<Mutex<Option<String>>> = Default::default();
        let s2 = slot.clone();
        std::thread::spawn(move || {
            GUARD.with(|g| *g.borrow_mut() = Some(Guard(s2)));
            if first_call_before_exit {
                all_calls().expect("ordinary calls on a live thread");
            }
        })
        .join()
        .map_err(|p| format!("INVARIANT panic: a call on a live thread panicked: {}", msg(p)))?;
        let verdict = slot.lock().unwrap().take();
        match verdict {
            None => return Err("HARNESS: the guard's destructor did not run".into()),
            Some(s) if s.is_empty() => {}
            Some(s) => {
                return Err(format!(
                    "INVARIANT teardown: a call made while the thread shuts down ({} an earlier call on that thread) failed: {}",
                    if first_call_before_exit { "after" } else { "without" },
                    s
                ))
            }
        }
    }
    Ok(())
}

fn vm_size() -> Option<u64> {
    let t = std::fs::read_to_string("/proc/self/statm").ok()?;
    let pages: u64 = t.split_whitespace().next()?.parse().ok()?;
    Some(pages * 4096)
}

fn starved() -> Result<(), String> {
    let mut old = libc::rlimit { rlim_cur: 0, rlim_max: 0 };
    if unsafe { libc::getrlimit(libc::RLIMIT_AS, &mut old) } != 0 {
        return Err("HARNESS: getrlimit failed".into());
    }
    let vm = vm_size().ok_or_else(|| "HARNESS: cannot read /proc/self/statm".to_string())?;
    // two MiB of slack: plenty for the tables (about 60 KiB), not enough for a thread stack with its guard page or a big mapping
    let tight = libc::rlimit { rlim_cur: vm + (2 << 20), rlim_max: old.rlim_max };
    if unsafe { libc::setrlimit(libc::RLIMIT_AS, &tight) } != 0 {
        return Err("HARNESS: setrlimit failed".into());
    }
    let first = catch_unwind(AssertUnwindSafe(|| contract(&Fq::from(5u64), &Fq::from(7u64))));
    if unsafe { libc::setrlimit(libc::RLIMIT_AS, &old) } != 0 {
        return Err("HARNESS: cannot restore the address-space limit".into());
    }
    match &first {
        Ok(Ok(())) => println!("note: the first call succeeded under the address-space shortage"),
        Ok(Err(e)) => return Err(format!("INVARIANT sqrt_contract: first call under shortage: {}", e)),
        Err(_) => println!("note: the first call failed under the address-space shortage (tolerated: the fault was still active)"),
    }
    // the shortage is over: the library must serve
    for round in 0..3 {
        match catch_unwind(AssertUnwindSafe(all_calls)) {
            Ok(Ok(())) => {}
            Ok(Err(e)) => return Err(format!("INVARIANT no_recovery_after_resource_shortage: call round {} after the shortage: {}", round, e)),
            Err(p) => {
                return Err(format!(
                    "INVARIANT no_recovery_after_resource_shortage: call round {} after the shortage was over panicked: {}",
                    round,
                    msg(p)
                ))
            }
        }
    }
    Ok(())
}

pub fn main(mode: &str) -> i32 {
    let r = match mode {
        "teardown" => teardown(),
        "starved" => starved(),
        _ => Err("HARNESS: unknown edge mode".into()),
    };
    match r {
        Ok(()) => {
            println!("ok edge {}", mode);
            0
        }
        Err(e) if e.starts_with("HARNESS") => {
            eprintln!("HARNESS-ERROR: {}", e);
            2
        }
        Err(e) => {
            println!("{}", e);
            1
        }
    }
}
