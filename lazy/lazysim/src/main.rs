//! Engine `lazysim` (C09, shared-state clause): caller threads racing on first
//! use of decaf377's lazily initialised statics, under shuttle's seeded
//! schedulers. `once_cell::sync::Lazy` is replaced (shadow manifest, zero lines
//! of /repo changed) by a stand-in over shuttle's `Once` + per-execution
//! storage, so every execution starts with empty tables.
//!
//! This binary is the *child*: it runs one batch for one (scheduler, seed) and
//! writes a JSON result. The driver (`run.sh` / `drive.py`) fans out children
//! over processes, merges results and writes the evidence file.

use decaf377::{Element, Encoding, Fq, Fr};
use num_bigint::BigUint;
use serde_json::json;
use shuttle::rand::Rng as _;
use shuttle::scheduler::{PctScheduler, RandomScheduler, Schedule, Scheduler, Task, TaskId};
use simcore::decaf as rd;
use simcore::digest::{hex, Fnv};
use simcore::field::fq;
use std::collections::BTreeSet;
use std::sync::atomic::{AtomicU64, Ordering};
use std::sync::{Arc, Mutex, OnceLock};

// ---------------------------------------------------------------------------
// inputs computed outside any execution, by the reference model only

struct Inputs {
    /// g = zeta^((q-1)/2^47): generator of the 2-Sylow subgroup
    g: BigUint,
    valid: Vec<[u8; 32]>,
    invalid: Vec<[u8; 32]>,
}

fn inputs() -> &'static Inputs {
    static I: OnceLock<Inputs> = OnceLock::new();
    I.get_or_init(|| {
        let f = fq();
        let g = f.pow(rd::zeta(), &f.trace);
        let mut valid = Vec::new();
        let mut acc = rd::identity();
        for _ in 0..16 {
            valid.push(rd::encode(&acc).unwrap());
            acc = rd::add(&acc, rd::generator());
        }
        let mut invalid = Vec::new();
        let mut m1 = [0u8; 32];
        m1.copy_from_slice(&f.to_le(&(&f.p - 1u32)));
        invalid.push(m1);
        let mut one = [0u8; 32];
        one[0] = 1;
        invalid.push(one);
        invalid.push([0xff; 32]);
        let mut k = 2u32;
        while invalid.len() < 8 {
            let s = BigUint::from(k);
            if let Err(rd::Reject::NonSquare) = rd::decode_s(&s) {
                let mut b = [0u8; 32];
                b.copy_from_slice(&f.to_le(&s));
                invalid.push(b);
            }
            k += 2;
        }
        Inputs { g, valid, invalid }
    })
}

fn big_to_fq(b: &BigUint) -> Fq {
    let mut v = (b % &fq().p).to_bytes_le();
    v.resize(32, 0);
    Fq::from_le_bytes_mod_order(&v)
}
fn fq_to_big(x: &Fq) -> BigUint {
    BigUint::from_bytes_le(&x.to_bytes_le())
}

#[derive(Clone, Debug)]
enum Op {
    Sqrt { num: BigUint, den: BigUint, digits: [u8; 6] },
    Decode([u8; 32]),
    Encode(u64),
    Elligator(BigUint),
    /// generic field square root and Legendre symbol (ark_ff::Field) against Euler's criterion
    FieldSqrt(BigUint),
    /// k*B + (r-k)*B: the identity, possibly through its (0,-1) representative
    IdentityAlt(u64),
}

#[derive(Clone, Debug, PartialEq, Eq)]
enum Res {
    /// (sqrt exists, legendre as -1/0/1)
    FieldSqrt(Option<BigUint>, i8),
    Sqrt(bool, BigUint),
    Decode(Option<[u8; 32]>),
    Encode([u8; 32]),
    Elligator([u8; 32]),
}

static DIGIT_COVER: Mutex<Option<BTreeSet<(u8, u8)>>> = Mutex::new(None);
static STEPS: AtomicU64 = AtomicU64::new(0);
static EXECUTIONS: AtomicU64 = AtomicU64::new(0);
static CONTENDED_EXECS: AtomicU64 = AtomicU64::new(0);
static OPS: AtomicU64 = AtomicU64::new(0);
static PROGRESS_FILE: OnceLock<String> = OnceLock::new();

/// Workload of one operation, drawn from shuttle's data source so that it is
/// part of the recorded schedule.
fn mont_input<R: shuttle::rand::Rng>(rng: &mut R) -> BigUint {
    let mut words: Vec<u64> = (0..24).map(|_| rng.gen::<u64>()).collect();
    let mut picks: Vec<u64> = (0..24).map(|_| rng.gen::<u64>()).collect();
    simcore::field::mont_structured(
        fq(),
        &mut |n| picks.pop().unwrap_or(0) % n.max(1),
        &mut || words.pop().unwrap_or(0),
    )
}

/// Field::sqrt together with its in-place twin: both must agree, and a failed in-place root must leave
/// its operand alone (the provided default writes only when a root exists).
fn sqrt_both(v: &Fq) -> Option<Fq> {
    use ark_ff::Field;
    let r = v.sqrt();
    let mut w = *v;
    let had_root = w.sqrt_in_place().is_some();
    match (&r, had_root) {
        (Some(y), true) => {
            if w * w != *v || (w != *y && w != -*y) {
                panic!("INVARIANT field_sqrt: sqrt_in_place left {} for operand {} whose root is {}", w, v, y);
            }
        }
        (None, false) => {
            if w != *v {
                panic!("INVARIANT field_sqrt: sqrt_in_place returned None but changed its operand {} into {}", v, w);
            }
        }
        _ => panic!("INVARIANT field_sqrt: sqrt and sqrt_in_place disagree on whether {} has a root", v),
    }
    r
}

fn draw_op(prev: Option<&Op>) -> Op {
    let mut rng = shuttle::rand::thread_rng();
    let inp = inputs();
    let f = fq();
    // call sequences on one thread: the same denominator again with another numerator
    if let Some(Op::Sqrt { den, digits, .. }) = prev {
        if rng.gen_range(0..3u32) == 0 {
            let num = match rng.gen_range(0..4u32) {
                0 => BigUint::from(2u32),
                1 => rd::zeta().clone(),
                2 => f.mul(den, den),
                _ => BigUint::from(rng.gen::<u64>()) + 2u32,
            };
            return Op::Sqrt {
                num,
                den: den.clone(),
                digits: *digits,
            };
        }
    }
    match rng.gen_range(0..12u32) {
        0..=4 => {
            // den = g^e * u, u of odd order; e's six table digits (7 + 5x8 bits) structured
            let mut digits = [0u8; 6];
            let pat = rng.gen_range(0..6u32);
            for (i, d) in digits.iter_mut().enumerate() {
                *d = match pat {
                    0 => 0,
                    1 => 0xff,
                    2 => {
                        if i as u32 == rng.gen_range(0..6u32) {
                            rng.gen::<u8>()
                        } else {
                            0
                        }
                    }
                    _ => rng.gen::<u8>(),
                };
            }
            digits[0] &= 0x7f;
            let mut e = BigUint::from(0u32);
            // digit 0 is the most significant 7 bits of the 47-bit exponent
            let widths = [7u32, 8, 8, 8, 8, 8];
            for (d, w) in digits.iter().zip(widths.iter()) {
                e = (e << *w) + BigUint::from(*d);
            }
            let root = f.pow(&inp.g, &e);
            let kind = rng.gen_range(0..8u32);
            let odd = match kind {
                0 => BigUint::from(1u32), // pure 2^k-th root of unity
                _ => {
                    let x = BigUint::from(rng.gen::<u64>()) + 2u32;
                    f.pow(&x, &(BigUint::from(1u32) << 47))
                }
            };
            let den = match kind {
                1 => BigUint::from(0u32),
                _ => f.mul(&root, &odd),
            };
            // operands whose Montgomery limbs are structured (all-ones / zero limbs and half-limbs)
            if rng.gen_range(0..10u32) == 0 {
                let (num, den) = match rng.gen_range(0..3u32) {
                    0 => (mont_input(&mut rng), BigUint::from(1u32)),
                    1 => (BigUint::from(1u32), mont_input(&mut rng)),
                    _ => (mont_input(&mut rng), mont_input(&mut rng)),
                };
                return Op::Sqrt { num, den, digits: [0u8; 6] };
            }
            let num = match rng.gen_range(0..8u32) {
                0 => BigUint::from(0u32),
                1 => den.clone(),                      // ratio 1
                2 => f.mul(&den, rd::zeta()),          // ratio zeta
                3 => f.mul(&den, &f.sqr(rd::zeta())),  // ratio zeta^2
                _ => BigUint::from(1u32),
            };
            Op::Sqrt { num, den, digits }
        }
        5 | 6 => {
            if rng.gen_range(0..3u32) == 0 {
                Op::Decode(inp.invalid[rng.gen_range(0..inp.invalid.len())])
            } else {
                Op::Decode(inp.valid[rng.gen_range(0..inp.valid.len())])
            }
        }
        7 | 8 => Op::Encode(rng.gen_range(0..40u64)),
        9 => Op::Elligator(BigUint::from(rng.gen_range(0..1000u64))),
        10 => Op::FieldSqrt(match rng.gen_range(0..7u32) {
            6 => mont_input(&mut rng),
            0 => BigUint::from(0u32),
            1 => BigUint::from(1u32),
            2 => rd::zeta().clone(),
            3 => &f.p - 1u32,
            _ => BigUint::from(rng.gen::<u64>()),
        }),
        _ => Op::IdentityAlt(rng.gen_range(1..40u64)),
    }
}

fn exec_op(op: &Op) -> Res {
    match op {
        Op::Sqrt { num, den, .. } => {
            let (b, y) = Fq::sqrt_ratio_zeta(&big_to_fq(num), &big_to_fq(den));
            Res::Sqrt(b, fq_to_big(&y))
        }
        Op::Decode(b) => Res::Decode(Encoding(*b).vartime_decompress().ok().map(|e| e.vartime_compress().0)),
        Op::Encode(k) => Res::Encode((Element::GENERATOR * Fr::from(*k)).vartime_compress().0),
        Op::Elligator(r) => Res::Elligator(Element::encode_to_curve(&big_to_fq(r)).vartime_compress().0),
        Op::FieldSqrt(x) => {
            use ark_ff::Field;
            let v = big_to_fq(x);
            let leg = match v.legendre() {
                ark_ff::LegendreSymbol::Zero => 0,
                ark_ff::LegendreSymbol::QuadraticResidue => 1,
                ark_ff::LegendreSymbol::QuadraticNonResidue => -1,
            };
            Res::FieldSqrt(sqrt_both(&v).map(|y| fq_to_big(&y)), leg)
        }
        Op::IdentityAlt(k) => {
            let r_minus_k = -Fr::from(*k);
            Res::Encode((Element::GENERATOR * Fr::from(*k) + Element::GENERATOR * r_minus_k).vartime_compress().0)
        }
    }
}

/// The same operation on the minimal build (32-bit fiat fields, self-contained
/// curve, constant-time Tonelli-Shanks), linked into this binary as a second,
/// heterogeneous caller. It has no shared state; it is here so that the "both
/// builds" configuration is at least sampled by the workload.
fn exec_op_min(op: &Op) -> Res {
    use decaf377_min as m;
    let to_fq = |b: &BigUint| {
        let mut v = (b % &fq().p).to_bytes_le();
        v.resize(32, 0);
        m::Fq::from_le_bytes_mod_order(&v)
    };
    match op {
        Op::Sqrt { num, den, .. } => {
            let (b, y) = m::Fq::non_arkworks_sqrt_ratio_zeta(&to_fq(num), &to_fq(den));
            Res::Sqrt(b, BigUint::from_bytes_le(&y.to_bytes_le()))
        }
        Op::Decode(b) => Res::Decode(m::Encoding(*b).vartime_decompress().ok().map(|e| e.vartime_compress().0)),
        Op::Encode(k) => Res::Encode(m::Element::GENERATOR.scalar_mul_vartime(&[*k]).vartime_compress().0),
        Op::Elligator(r) => Res::Elligator(m::Element::encode_to_curve(&to_fq(r)).vartime_compress().0),
        // the minimal build has no generic Field trait: judged on the arkworks build only
        Op::FieldSqrt(_) => exec_op(op),
        Op::IdentityAlt(k) => {
            let g = m::Element::GENERATOR;
            Res::Encode((g * m::Fr::from(*k) + g * (-m::Fr::from(*k))).vartime_compress().0)
        }
    }
}

/// Oracle for one result, by the reference model (invariant ids in the messages).
fn judge(op: &Op, res: &Res) {
    match (op, res) {
        (Op::Sqrt { num, den, .. }, Res::Sqrt(b, y)) => {
            if let Err(e) = rd::check_sqrt_ratio(num, den, *b, y) {
                panic!("INVARIANT sqrt_contract: num={:x} den={:x}: {}", num, den, e);
            }
        }
        (Op::Decode(bytes), Res::Decode(r)) => {
            let want = rd::decode(bytes).ok().map(|p| rd::encode(&p).unwrap());
            if want != *r {
                panic!(
                    "INVARIANT decode_under_contention: {} -> {:?}, reference {:?}",
                    hex(bytes),
                    r.map(|b| hex(&b)),
                    want.map(|b| hex(&b))
                );
            }
        }
        (Op::Encode(k), Res::Encode(b)) => {
            let want = rd::encode(&rd::scalar_mul(&BigUint::from(*k), rd::generator())).unwrap();
            if want != *b {
                panic!("INVARIANT encode_under_contention: {}*B -> {}, reference {}", k, hex(b), hex(&want));
            }
        }
        (Op::FieldSqrt(x), Res::FieldSqrt(root, leg)) => {
            let f = fq();
            let want_leg: i8 = if *x == BigUint::from(0u32) {
                0
            } else if f.is_square(x) {
                1
            } else {
                -1
            };
            if *leg != want_leg {
                panic!("INVARIANT legendre_vs_euler: legendre({:x}) = {}, Euler's criterion says {}", x, leg, want_leg);
            }
            match root {
                Some(y) => {
                    if f.sqr(y) != *x {
                        panic!("INVARIANT field_sqrt: sqrt({:x})^2 != x", x);
                    }
                }
                None => {
                    if want_leg >= 0 {
                        panic!("INVARIANT field_sqrt: sqrt({:x}) is None but Euler's criterion says it is a square", x);
                    }
                }
            }
        }
        (Op::IdentityAlt(k), Res::Encode(b)) => {
            if *b != [0u8; 32] {
                panic!("INVARIANT identity_encoding: {}*B + (r-{})*B encodes to {}, not to 32 zero bytes", k, k, hex(b));
            }
        }
        (Op::Elligator(_), Res::Elligator(b)) => {
            if rd::decode(b).is_err() {
                panic!("INVARIANT elligator_under_contention: output {} is not a valid encoding", hex(b));
            }
        }
        _ => panic!("INVARIANT result_kind_mismatch"),
    }
}

fn scenario(max_threads: usize, max_ops: usize) {
    oc_shim::new_epoch();
    let before = oc_shim::stats();
    let (nthreads, plans): (usize, Vec<Vec<Op>>) = {
        let mut rng = shuttle::rand::thread_rng();
        let n = if max_threads <= 2 { 2 } else { rng.gen_range(2..=max_threads) };
        let plans = (0..n)
            .map(|_| {
                let k = if max_ops <= 1 { 1 } else { rng.gen_range(1..=max_ops) };
                let mut v: Vec<Op> = Vec::new();
                for _ in 0..k {
                    // repeats of an earlier query of this thread (anything remembered between calls -
                    // a memo, a cache with eviction - answers those)
                    if v.len() >= 2 && rng.gen_range(0..4u32) == 0 {
                        let j = rng.gen_range(0..v.len());
                        let op = v[j].clone();
                        v.push(op);
                        continue;
                    }
                    let op = draw_op(v.last());
                    v.push(op);
                }
                v
            })
            .collect();
        (n, plans)
    };
    {
        let mut cover = DIGIT_COVER.lock().unwrap();
        let set = cover.get_or_insert_with(BTreeSet::new);
        for p in &plans {
            for op in p {
                if let Op::Sqrt { digits, .. } = op {
                    for (i, d) in digits.iter().enumerate() {
                        set.insert((i as u8, *d));
                    }
                }
            }
        }
    }
    let mut handles = Vec::new();
    for plan in plans.iter().cloned() {
        handles.push(shuttle::thread::spawn(move || {
            let mut out = Vec::new();
            for op in &plan {
                let r = exec_op(op);
                judge(op, &r); // algebraic / reference check inside the racing thread
                let rm = exec_op_min(op);
                judge(op, &rm);
                match (&r, &rm) {
                    // the root's sign is not part of the contract; everything else must be byte-identical
                    (Res::Sqrt(a, _), Res::Sqrt(b, _)) => {
                        if a != b {
                            panic!("INVARIANT builds_disagree: {:?}: {:?} vs minimal build {:?}", op, r, rm);
                        }
                    }
                    _ => {
                        if r != rm {
                            panic!("INVARIANT builds_disagree: {:?}: {:?} vs minimal build {:?}", op, r, rm);
                        }
                    }
                }
                out.push(r);
            }
            out
        }));
    }
    let mut results = Vec::new();
    for h in handles {
        match h.join() {
            Ok(r) => results.push(r),
            Err(_) => panic!("INVARIANT thread_panicked: a caller thread panicked during first use"),
        }
    }
    // history check: concurrent result = sequential result, after all threads have joined
    for (plan, res) in plans.iter().zip(results.iter()) {
        for (op, r) in plan.iter().zip(res.iter()) {
            let again = exec_op(op);
            // the contract leaves the sign of the root open: an implementation may return either root, so only
            // the flag and the root up to sign have to agree; everything else is canonical and must be identical
            let same = match (&again, r) {
                (Res::Sqrt(f1, y1), Res::Sqrt(f2, y2)) => f1 == f2 && (y1 == y2 || *y1 == fq().neg(y2)),
                (a, b) => a == b,
            };
            if !same {
                panic!("INVARIANT concurrent_differs_from_sequential: {:?}: {:?} vs {:?}", op, r, again);
            }
            OPS.fetch_add(1, Ordering::Relaxed);
        }
    }
    let after = oc_shim::stats();
    if after.contended > before.contended {
        CONTENDED_EXECS.fetch_add(1, Ordering::Relaxed);
    }
    let done = EXECUTIONS.fetch_add(1, Ordering::Relaxed) + 1;
    // heartbeat for the driver: progress, not elapsed time, tells a healthy child from a stuck one
    if done % 25 == 0 {
        if let Some(p) = PROGRESS_FILE.get() {
            let _ = std::fs::write(p, done.to_string());
        }
    }
    let _ = nthreads;
}

/// Wraps a scheduler: hashes the sequence of scheduling choices of each
/// execution (distinct interleavings) and counts decisions (simulated steps).
struct Recording<S: Scheduler> {
    inner: S,
    cur: Fnv,
    seen: Arc<Mutex<BTreeSet<u64>>>,
    started: bool,
}

impl<S: Scheduler> Scheduler for Recording<S> {
    fn new_execution(&mut self) -> Option<Schedule> {
        if self.started {
            self.seen.lock().unwrap().insert(self.cur.finish());
        }
        self.started = true;
        self.cur = Fnv::new();
        self.inner.new_execution()
    }
    fn next_task(&mut self, runnable: &[&Task], current: Option<TaskId>, is_yielding: bool) -> Option<TaskId> {
        let r = self.inner.next_task(runnable, current, is_yielding);
        if let Some(t) = r {
            self.cur.u64(usize::from(t) as u64);
            self.cur.u64(runnable.len() as u64);
        }
        STEPS.fetch_add(1, Ordering::Relaxed);
        r
    }
    fn next_u64(&mut self) -> u64 {
        self.inner.next_u64()
    }
}

/// Pure clause of the property, sampled outside any schedule: the generic field square root and
/// Legendre symbol against Euler's criterion on structured inputs (powers of two times small odd
/// numbers, boundary values), each with a wall-clock guard so that a non-terminating routine is
/// reported instead of stalling the engine.
fn pure_preflight(sdir: Option<String>) -> Result<(), String> {
    use ark_ff::Field;
    let f = fq();
    let mut xs: Vec<BigUint> = vec![BigUint::from(0u32), BigUint::from(1u32), &f.p - 1u32, rd::zeta().clone()];
    for k in 0..253u32 {
        for m in [1u32, 3, 7] {
            let x = (BigUint::from(m) << k) % &f.p;
            xs.push(x);
        }
    }
    let (tx, rx) = std::sync::mpsc::channel();
    let current = Arc::new(AtomicU64::new(0));
    let cur2 = current.clone();
    let xs2 = Arc::new(xs.clone());
    std::thread::spawn(move || {
        // inside a (single-task) simulated execution, so that lazily initialised statics of the crate work
        // here as they do in the scenario, whichever of them these entry points happen to use
        let slot: Arc<std::sync::Mutex<Vec<(i8, Option<BigUint>)>>> = Arc::new(std::sync::Mutex::new(Vec::new()));
        let slot2 = slot.clone();
        let r = std::panic::catch_unwind(std::panic::AssertUnwindSafe(move || {
            // same failure-persistence setting as the scenario's runner: shuttle installs its panic hook
            // once per process, with the setting of whichever runner comes first
            let mut cfg = shuttle::Config::new();
            cfg.silence_warnings = true;
            cfg.failure_persistence = match &sdir {
                Some(d) => shuttle::FailurePersistence::File(Some(d.into())),
                None => shuttle::FailurePersistence::Print,
            };
            shuttle::Runner::new(shuttle::scheduler::RandomScheduler::new_from_seed(1, 1), cfg).run(
                move || {
                    let mut out = Vec::new();
                    for (i, x) in xs2.iter().enumerate() {
                        cur2.store(i as u64, Ordering::SeqCst);
                        let v = big_to_fq(x);
                        let leg = match v.legendre() {
                            ark_ff::LegendreSymbol::Zero => 0i8,
                            ark_ff::LegendreSymbol::QuadraticResidue => 1,
                            ark_ff::LegendreSymbol::QuadraticNonResidue => -1,
                        };
                        out.push((leg, sqrt_both(&v).map(|y| fq_to_big(&y))));
                    }
                    *slot2.lock().unwrap() = out;
                },
            );
        }));
        let msg = r.map_err(|p| {
            p.downcast_ref::<String>()
                .cloned()
                .or_else(|| p.downcast_ref::<&str>().map(|s| s.to_string()))
                .unwrap_or_else(|| "panic".into())
        });
        let out = std::mem::take(&mut *slot.lock().unwrap());
        let _ = tx.send(msg.map(|_| out));
    });
    let res = match rx.recv_timeout(std::time::Duration::from_secs(60)) {
        Ok(Ok(r)) => r,
        Ok(Err(msg)) => {
            let i = current.load(Ordering::SeqCst) as usize;
            return Err(format!(
                "INVARIANT panic: Field::legendre / Field::sqrt panicked on x = {:x}: {}",
                xs[i.min(xs.len() - 1)],
                msg.lines().next().unwrap_or("")
            ));
        }
        Err(std::sync::mpsc::RecvTimeoutError::Timeout) => {
            let i = current.load(Ordering::SeqCst) as usize;
            return Err(format!(
                "INVARIANT no_termination: Field::legendre / Field::sqrt did not return within 60 s on x = {:x}",
                xs[i.min(xs.len() - 1)]
            ));
        }
        Err(std::sync::mpsc::RecvTimeoutError::Disconnected) => {
            eprintln!("HARNESS-ERROR: the preflight worker vanished");
            std::process::exit(2);
        }
    };
    if res.len() != xs.len() {
        eprintln!("HARNESS-ERROR: the preflight produced {} of {} results", res.len(), xs.len());
        std::process::exit(2);
    }
    for (x, (leg, root)) in xs.iter().zip(res.iter()) {
        let want: i8 = if *x == BigUint::from(0u32) { 0 } else if f.is_square(x) { 1 } else { -1 };
        if *leg != want {
            return Err(format!("INVARIANT legendre_vs_euler: legendre({:x}) = {}, Euler's criterion says {}", x, leg, want));
        }
        match root {
            Some(y) if f.sqr(y) != *x => return Err(format!("INVARIANT field_sqrt: sqrt({:x})^2 != x", x)),
            None if want >= 0 => return Err(format!("INVARIANT field_sqrt: sqrt({:x}) is None but it is a square", x)),
            _ => {}
        }
    }
    Ok(())
}

fn usage() -> ! {
    eprintln!(
        "usage: lazysim --scheduler random|pct --seed N --iters N --threads T --ops K --out FILE --schedule-dir DIR\n\
         \x20      lazysim --replay-schedule FILE --threads T --ops K"
    );
    std::process::exit(2)
}

fn main() {
    let args: Vec<String> = std::env::args().skip(1).collect();
    let mut sched = "random".to_string();
    let mut seed = 0u64;
    let mut iters = 100usize;
    let mut threads = 3usize;
    let mut ops = 3usize;
    let mut out: Option<String> = None;
    let mut sdir: Option<String> = None;
    let mut replay: Option<String> = None;
    let mut stack: usize = 0x40000;
    let mut preflight = false;
    let mut i = 0;
    while i < args.len() {
        let v = |i: &mut usize| -> String {
            *i += 1;
            args.get(*i).cloned().unwrap_or_else(|| usage())
        };
        match args[i].as_str() {
            "--scheduler" => sched = v(&mut i),
            "--seed" => seed = v(&mut i).parse().unwrap_or_else(|_| usage()),
            "--iters" => iters = v(&mut i).parse().unwrap_or_else(|_| usage()),
            "--threads" => threads = v(&mut i).parse().unwrap_or_else(|_| usage()),
            "--ops" => ops = v(&mut i).parse().unwrap_or_else(|_| usage()),
            "--out" => out = Some(v(&mut i)),
            "--schedule-dir" => sdir = Some(v(&mut i)),
            "--replay-schedule" => replay = Some(v(&mut i)),
            "--stack" => stack = v(&mut i).parse().unwrap_or_else(|_| usage()),
            "--preflight" => preflight = true,
            _ => usage(),
        }
        i += 1;
    }
    // reference self-tests first: a wrong oracle is a harness defect (exit 2)
    if let Err(e) = simcore::field::self_test().and_then(|_| rd::self_test()) {
        eprintln!("HARNESS-ERROR: self-test failed: {}", e);
        std::process::exit(2);
    }
    let _ = inputs();
    if preflight {
        if let Err(msg) = pure_preflight(sdir.clone()) {
            println!("{}", msg);
            let doc = json!({"seed": seed, "executions": 0, "steps": 0, "ops": 0, "contended_executions": 0, "contended_entries": 0,
                "cross_cell_overlap": 0, "cells_initialised": 0, "distinct_cells": 0, "interleaving_digests": [], "digit_cover": [],
                "failure": msg, "wall_s": 0.0, "preflight_failed": true});
            if let Some(p) = &out {
                let _ = std::fs::write(p, serde_json::to_string(&doc).unwrap());
            }
            std::process::exit(1);
        }
    }
    if let Some(path) = replay {
        let r = std::panic::catch_unwind(|| {
            shuttle::replay_from_file(move || scenario(threads, ops), &path);
        });
        match r {
            Ok(()) => {
                println!("replay: the schedule completes without a violation on this tree");
                std::process::exit(0);
            }
            Err(p) => {
                let msg = p
                    .downcast_ref::<String>()
                    .cloned()
                    .or_else(|| p.downcast_ref::<&str>().map(|s| s.to_string()))
                    .unwrap_or_default();
                // the replay scheduler's own complaints mean the code under test now makes different
                // scheduling decisions than when the file was recorded: that is "not reproduced", not a verdict
                let mismatch = [
                    "schedule ended early",
                    "expected context switch but next schedule step is random choice",
                    "expected random choice but next schedule step is context switch",
                    "scheduled task is not runnable",
                ];
                if mismatch.iter().any(|m| msg.contains(m)) {
                    println!("replay: the recorded schedule does not fit this tree (the code takes different scheduling steps): not reproduced");
                    std::process::exit(0);
                }
                println!("reproduced: {}", msg.lines().next().unwrap_or(""));
                std::process::exit(1);
            }
        }
    }
    if let Some(o) = &out {
        let _ = PROGRESS_FILE.set(format!("{}.progress", o));
    }
    let mut cfg = shuttle::Config::new();
    cfg.silence_warnings = true;
    cfg.stack_size = stack;
    cfg.failure_persistence = match &sdir {
        Some(d) => shuttle::FailurePersistence::File(Some(d.into())),
        None => shuttle::FailurePersistence::Print,
    };
    let seen = Arc::new(Mutex::new(BTreeSet::new()));
    let t0 = std::time::Instant::now();
    let res = {
        let seen = seen.clone();
        std::panic::catch_unwind(move || {
            if sched == "pct" {
                let s = Recording {
                    inner: PctScheduler::new_from_seed(seed, 3, iters),
                    cur: Fnv::new(),
                    seen,
                    started: false,
                };
                shuttle::Runner::new(s, cfg).run(move || scenario(threads, ops));
            } else {
                let s = Recording {
                    inner: RandomScheduler::new_from_seed(seed, iters),
                    cur: Fnv::new(),
                    seen,
                    started: false,
                };
                shuttle::Runner::new(s, cfg).run(move || scenario(threads, ops));
            }
        })
    };
    let failure = match &res {
        Ok(()) => None,
        Err(p) => Some(
            p.downcast_ref::<String>()
                .cloned()
                .or_else(|| p.downcast_ref::<&str>().map(|s| s.to_string()))
                .unwrap_or_else(|| "panic".into()),
        ),
    };
    let st = oc_shim::stats();
    let digests: Vec<String> = seen.lock().unwrap().iter().map(|d| format!("{:016x}", d)).collect();
    let cover = DIGIT_COVER.lock().unwrap().clone().unwrap_or_default();
    let doc = json!({
        "seed": seed,
        "executions": EXECUTIONS.load(Ordering::Relaxed),
        "steps": STEPS.load(Ordering::Relaxed),
        "ops": OPS.load(Ordering::Relaxed),
        "contended_executions": CONTENDED_EXECS.load(Ordering::Relaxed),
        "contended_entries": st.contended,
        "cross_cell_overlap": st.overlap,
        "cells_initialised": st.initialised,
        "distinct_cells": st.distinct_cells,
        "interleaving_digests": digests,
        "digit_cover": cover.iter().map(|(i, d)| (*i as u32) * 256 + *d as u32).collect::<Vec<u32>>(),
        "failure": failure,
        "wall_s": t0.elapsed().as_secs_f64(),
    });
    match out {
        Some(p) => std::fs::write(p, serde_json::to_string(&doc).unwrap()).unwrap(),
        None => println!("{}", doc),
    }
    std::process::exit(if failure.is_some() { 1 } else { 0 });
}
