#!/bin/bash
# C09 (shared-state clause): shuttle executions + (thorough) Miri seeds. See drive.py.
exec python3 "$(dirname "$0")/drive.py" "$@"
