//! Stand-in for `once_cell` used only by the `lazysim` engine.
//!
//! `sync::Lazy` is `shuttle::lazy_static::Lazy`: a `shuttle::sync::Once` plus
//! per-execution storage, so every static of decaf377 is fresh in every
//! shuttle execution and first use is contended again and again, under a
//! scheduler the harness owns. The probes below use plain std atomics, which
//! shuttle does not intercept, so they add no scheduling point.
use std::marker::PhantomData;
use std::sync::atomic::{AtomicU64, AtomicUsize, Ordering};

static EPOCH: AtomicU64 = AtomicU64::new(1);
/// entries into `Lazy::deref` that found another task inside the same cell
static CONTENDED: AtomicU64 = AtomicU64::new(0);
/// first completed accesses per epoch, over all cells
static INITIALISED: AtomicU64 = AtomicU64::new(0);
/// entries that found a *different* cell being initialised (nested / cross-cell overlap)
static OVERLAP: AtomicU64 = AtomicU64::new(0);
static INSIDE_ANY: AtomicUsize = AtomicUsize::new(0);
/// addresses of the distinct cells that were ever initialised in this process
static CELLS: std::sync::Mutex<Vec<usize>> = std::sync::Mutex::new(Vec::new());

/// Called by the harness at the start of every execution.
pub fn new_epoch() {
    EPOCH.fetch_add(1, Ordering::SeqCst);
    INSIDE_ANY.store(0, Ordering::SeqCst);
}

#[derive(Clone, Copy, Debug, Default)]
pub struct Stats {
    pub contended: u64,
    pub initialised: u64,
    pub overlap: u64,
    pub distinct_cells: u64,
}

pub fn stats() -> Stats {
    Stats {
        contended: CONTENDED.load(Ordering::SeqCst),
        initialised: INITIALISED.load(Ordering::SeqCst),
        overlap: OVERLAP.load(Ordering::SeqCst),
        distinct_cells: CELLS.lock().unwrap().len() as u64,
    }
}

pub mod sync {
    use super::*;

    pub struct Lazy<T: Sync + 'static, F = fn() -> T> {
        inner: shuttle::lazy_static::Lazy<T>,
        ready_epoch: AtomicU64,
        inside: AtomicUsize,
        _f: PhantomData<F>,
    }

    impl<T: Sync + 'static> Lazy<T> {
        pub const fn new(init: fn() -> T) -> Self {
            Lazy {
                inner: shuttle::lazy_static::Lazy::new(init),
                ready_epoch: AtomicU64::new(0),
                inside: AtomicUsize::new(0),
                _f: PhantomData,
            }
        }

        pub fn force(this: &Self) -> &T {
            &**this
        }
    }

    impl<T: Sync + 'static> core::ops::Deref for Lazy<T> {
        type Target = T;
        fn deref(&self) -> &T {
            // Statics only: the crate never builds a `Lazy` on the stack.
            let this: &'static Self = unsafe { core::mem::transmute::<&Self, &'static Self>(self) };
            let epoch = EPOCH.load(Ordering::SeqCst);
            let fresh = this.ready_epoch.load(Ordering::SeqCst) != epoch;
            if fresh {
                if this.inside.fetch_add(1, Ordering::SeqCst) > 0 {
                    CONTENDED.fetch_add(1, Ordering::SeqCst);
                } else if INSIDE_ANY.load(Ordering::SeqCst) > 0 {
                    OVERLAP.fetch_add(1, Ordering::SeqCst);
                }
                INSIDE_ANY.fetch_add(1, Ordering::SeqCst);
            }
            let r = this.inner.get();
            if fresh {
                this.inside.fetch_sub(1, Ordering::SeqCst);
                INSIDE_ANY.fetch_sub(1, Ordering::SeqCst);
                if this.ready_epoch.swap(epoch, Ordering::SeqCst) != epoch {
                    INITIALISED.fetch_add(1, Ordering::SeqCst);
                    let addr = this as *const Self as usize;
                    let mut cells = CELLS.lock().unwrap();
                    if !cells.contains(&addr) {
                        cells.push(addr);
                    }
                }
            }
            r
        }
    }
}
