//! Stand-in for `once_cell` used only by the `lazysim` engine.
//!
//! `sync::Lazy` is `shuttle::lazy_static::Lazy`: a `shuttle::sync::Once` plus
//! per-execution storage, so every static of decaf377 is fresh in every
//! shuttle execution and first use is contended again and again, under a
//! scheduler the harness owns. The probes below use plain std atomics, which
//! shuttle does not intercept, so they add no scheduling point.
use std::marker::PhantomData;
use std::sync::atomic::{AtomicU64, AtomicUsize, Ordering};

static EPOCH: AtomicU64 = AtomicU64::new(1);
/// entries into `Lazy::deref` that found another task inside the same cell
static CONTENDED: AtomicU64 = AtomicU64::new(0);
/// first completed accesses per epoch, over all cells
static INITIALISED: AtomicU64 = AtomicU64::new(0);
/// entries that found a *different* cell being initialised (nested / cross-cell overlap)
static OVERLAP: AtomicU64 = AtomicU64::new(0);
static INSIDE_ANY: AtomicUsize = AtomicUsize::new(0);
/// addresses of the distinct cells that were ever initialised in this process
static CELLS: std::sync::Mutex<Vec<usize>> = std::sync::Mutex::new(Vec::new());

/// Called by the harness at the start of every execution.
pub fn new_epoch() {
    EPOCH.fetch_add(1, Ordering::SeqCst);
    INSIDE_ANY.store(0, Ordering::SeqCst);
}

#[derive(Clone, Copy, Debug, Default)]
pub struct Stats {
    pub contended: u64,
    pub initialised: u64,
    pub overlap: u64,
    pub distinct_cells: u64,
}

pub fn stats() -> Stats {
    Stats {
        contended: CONTENDED.load(Ordering::SeqCst),
        initialised: INITIALISED.load(Ordering::SeqCst),
        overlap: OVERLAP.load(Ordering::SeqCst),
        distinct_cells: CELLS.lock().unwrap().len() as u64,
    }
}

pub mod sync {
    use super::*;
    pub use super::sync_cell::OnceCell;

    pub struct Lazy<T: Sync + 'static, F = fn() -> T> {
        inner: shuttle::lazy_static::Lazy<T>,
        ready_epoch: AtomicU64,
        inside: AtomicUsize,
        _f: PhantomData<F>,
    }

    impl<T: Sync + 'static> Lazy<T> {
        pub const fn new(init: fn() -> T) -> Self {
            Lazy {
                inner: shuttle::lazy_static::Lazy::new(init),
                ready_epoch: AtomicU64::new(0),
                inside: AtomicUsize::new(0),
                _f: PhantomData,
            }
        }

        pub fn force(this: &Self) -> &T {
            &**this
        }
    }

    impl<T: Sync + 'static> core::ops::Deref for Lazy<T> {
        type Target = T;
        fn deref(&self) -> &T {
            // Statics only: the crate never builds a `Lazy` on the stack.
            let this: &'static Self = unsafe { core::mem::transmute::<&Self, &'static Self>(self) };
            let epoch = EPOCH.load(Ordering::SeqCst);
            let fresh = this.ready_epoch.load(Ordering::SeqCst) != epoch;
            if fresh {
                if this.inside.fetch_add(1, Ordering::SeqCst) > 0 {
                    CONTENDED.fetch_add(1, Ordering::SeqCst);
                } else if INSIDE_ANY.load(Ordering::SeqCst) > 0 {
                    OVERLAP.fetch_add(1, Ordering::SeqCst);
                }
                INSIDE_ANY.fetch_add(1, Ordering::SeqCst);
            }
            let r = this.inner.get();
            if fresh {
                this.inside.fetch_sub(1, Ordering::SeqCst);
                INSIDE_ANY.fetch_sub(1, Ordering::SeqCst);
                if this.ready_epoch.swap(epoch, Ordering::SeqCst) != epoch {
                    INITIALISED.fetch_add(1, Ordering::SeqCst);
                    let addr = this as *const Self as usize;
                    let mut cells = CELLS.lock().unwrap();
                    if !cells.contains(&addr) {
                        cells.push(addr);
                    }
                }
            }
            r
        }
    }
}

// ---------------------------------------------------------------------------
// The rest of once_cell's surface, so that a tree which replaces `sync::Lazy`
// by another once_cell primitive still builds against the stand-in and still
// runs under the simulated scheduler. Cells are "fresh in every execution" by
// an epoch stamp (statics outlive executions); every operation is preceded by
// a scheduling point (`shuttle::thread::sleep(0)` is a plain context switch).
// Only one task runs at a time under shuttle, so plain std atomics hold the state.

fn sched() {
    shuttle::thread::sleep(std::time::Duration::from_nanos(0));
}

fn note_cell(addr: usize) {
    let mut cells = CELLS.lock().unwrap();
    if !cells.contains(&addr) {
        cells.push(addr);
    }
}

pub mod race {
    use super::*;
    use std::sync::atomic::AtomicPtr;

    /// `once_cell::race::OnceBox`: racy initialisation, first `set` wins.
    pub struct OnceBox<T> {
        epoch: AtomicU64,
        ptr: AtomicPtr<T>,
    }

    impl<T> Default for OnceBox<T> {
        fn default() -> Self {
            Self::new()
        }
    }

    impl<T> OnceBox<T> {
        pub const fn new() -> Self {
            OnceBox {
                epoch: AtomicU64::new(0),
                ptr: AtomicPtr::new(std::ptr::null_mut()),
            }
        }
        fn cur(&self) -> *mut T {
            let e = EPOCH.load(Ordering::SeqCst);
            if self.epoch.swap(e, Ordering::SeqCst) != e {
                // stale value of an earlier execution: forget it (leaked on purpose)
                self.ptr.store(std::ptr::null_mut(), Ordering::SeqCst);
            }
            self.ptr.load(Ordering::SeqCst)
        }
        pub fn get(&self) -> Option<&T> {
            sched();
            let p = self.cur();
            if p.is_null() {
                None
            } else {
                Some(unsafe { &*p })
            }
        }
        pub fn set(&self, value: Box<T>) -> Result<(), Box<T>> {
            sched();
            if !self.cur().is_null() {
                return Err(value);
            }
            self.ptr.store(Box::into_raw(value), Ordering::SeqCst);
            note_cell(self as *const Self as usize);
            INITIALISED.fetch_add(1, Ordering::SeqCst);
            Ok(())
        }
        pub fn get_or_init<F: FnOnce() -> Box<T>>(&self, f: F) -> &T {
            match self.get_or_try_init(|| Ok::<Box<T>, core::convert::Infallible>(f())) {
                Ok(v) => v,
                Err(e) => match e {},
            }
        }
        pub fn get_or_try_init<F, E>(&self, f: F) -> Result<&T, E>
        where
            F: FnOnce() -> Result<Box<T>, E>,
        {
            if let Some(v) = self.get() {
                return Ok(v);
            }
            // racy by design: several tasks may run `f`; the first `set` wins
            if self.cur().is_null() && INSIDE_ANY.load(Ordering::SeqCst) > 0 {
                OVERLAP.fetch_add(1, Ordering::SeqCst);
            }
            let b = f()?;
            let _ = self.set(b);
            Ok(unsafe { &*self.cur() })
        }
    }

    unsafe impl<T: Sync + Send> Sync for OnceBox<T> {}

    /// `once_cell::race::OnceBool`
    pub struct OnceBool {
        epoch: AtomicU64,
        v: AtomicUsize, // 0 unset, 1 false, 2 true
    }
    impl OnceBool {
        pub const fn new() -> Self {
            OnceBool {
                epoch: AtomicU64::new(0),
                v: AtomicUsize::new(0),
            }
        }
        fn cur(&self) -> usize {
            let e = EPOCH.load(Ordering::SeqCst);
            if self.epoch.swap(e, Ordering::SeqCst) != e {
                self.v.store(0, Ordering::SeqCst);
            }
            self.v.load(Ordering::SeqCst)
        }
        pub fn get(&self) -> Option<bool> {
            sched();
            match self.cur() {
                0 => None,
                x => Some(x == 2),
            }
        }
        pub fn set(&self, value: bool) -> Result<(), ()> {
            sched();
            if self.cur() != 0 {
                return Err(());
            }
            self.v.store(1 + value as usize, Ordering::SeqCst);
            Ok(())
        }
        pub fn get_or_init<F: FnOnce() -> bool>(&self, f: F) -> bool {
            if let Some(v) = self.get() {
                return v;
            }
            let v = f();
            let _ = self.set(v);
            self.cur() == 2
        }
    }

    /// `once_cell::race::OnceNonZeroUsize`
    pub struct OnceNonZeroUsize {
        epoch: AtomicU64,
        v: AtomicUsize,
    }
    impl OnceNonZeroUsize {
        pub const fn new() -> Self {
            OnceNonZeroUsize {
                epoch: AtomicU64::new(0),
                v: AtomicUsize::new(0),
            }
        }
        fn cur(&self) -> usize {
            let e = EPOCH.load(Ordering::SeqCst);
            if self.epoch.swap(e, Ordering::SeqCst) != e {
                self.v.store(0, Ordering::SeqCst);
            }
            self.v.load(Ordering::SeqCst)
        }
        pub fn get(&self) -> Option<core::num::NonZeroUsize> {
            sched();
            core::num::NonZeroUsize::new(self.cur())
        }
        pub fn set(&self, value: core::num::NonZeroUsize) -> Result<(), ()> {
            sched();
            if self.cur() != 0 {
                return Err(());
            }
            self.v.store(value.get(), Ordering::SeqCst);
            Ok(())
        }
        pub fn get_or_init<F: FnOnce() -> core::num::NonZeroUsize>(&self, f: F) -> core::num::NonZeroUsize {
            if let Some(v) = self.get() {
                return v;
            }
            let v = f();
            let _ = self.set(v);
            core::num::NonZeroUsize::new(self.cur()).unwrap()
        }
    }
}

pub mod sync_cell {
    use super::*;
    use std::cell::UnsafeCell;

    const EMPTY: usize = 0;
    const RUNNING: usize = 1;
    const READY: usize = 2;

    /// `once_cell::sync::OnceCell`: blocking initialisation (waiters yield to the scheduler).
    pub struct OnceCell<T> {
        epoch: AtomicU64,
        state: AtomicUsize,
        value: UnsafeCell<Option<T>>,
    }
    unsafe impl<T: Sync + Send> Sync for OnceCell<T> {}
    unsafe impl<T: Send> Send for OnceCell<T> {}

    impl<T> Default for OnceCell<T> {
        fn default() -> Self {
            Self::new()
        }
    }

    impl<T> OnceCell<T> {
        pub const fn new() -> Self {
            OnceCell {
                epoch: AtomicU64::new(0),
                state: AtomicUsize::new(EMPTY),
                value: UnsafeCell::new(None),
            }
        }
        fn cur(&self) -> usize {
            let e = EPOCH.load(Ordering::SeqCst);
            if self.epoch.swap(e, Ordering::SeqCst) != e {
                self.state.store(EMPTY, Ordering::SeqCst);
                // the stale value is leaked on purpose: a reference into it may still be held by the harness
                unsafe { std::mem::forget((*self.value.get()).take()) };
            }
            self.state.load(Ordering::SeqCst)
        }
        pub fn get(&self) -> Option<&T> {
            sched();
            if self.cur() == READY {
                unsafe { (*self.value.get()).as_ref() }
            } else {
                None
            }
        }
        pub fn set(&self, value: T) -> Result<(), T> {
            sched();
            loop {
                match self.cur() {
                    READY => return Err(value),
                    RUNNING => {
                        CONTENDED.fetch_add(1, Ordering::SeqCst);
                        shuttle::thread::yield_now();
                    }
                    _ => break,
                }
            }
            unsafe { *self.value.get() = Some(value) };
            self.state.store(READY, Ordering::SeqCst);
            note_cell(self as *const Self as usize);
            INITIALISED.fetch_add(1, Ordering::SeqCst);
            Ok(())
        }
        pub fn get_or_init<F: FnOnce() -> T>(&self, f: F) -> &T {
            match self.get_or_try_init(|| Ok::<T, core::convert::Infallible>(f())) {
                Ok(v) => v,
                Err(e) => match e {},
            }
        }
        pub fn get_or_try_init<F: FnOnce() -> Result<T, E>, E>(&self, f: F) -> Result<&T, E> {
            sched();
            loop {
                match self.cur() {
                    READY => return Ok(unsafe { (*self.value.get()).as_ref().unwrap() }),
                    RUNNING => {
                        CONTENDED.fetch_add(1, Ordering::SeqCst);
                        shuttle::thread::yield_now();
                    }
                    _ => break,
                }
            }
            self.state.store(RUNNING, Ordering::SeqCst);
            if INSIDE_ANY.fetch_add(1, Ordering::SeqCst) > 0 {
                OVERLAP.fetch_add(1, Ordering::SeqCst);
            }
            // if `f` panics the cell goes back to EMPTY (once_cell does not poison)
            struct Reset<'a>(&'a AtomicUsize, bool);
            impl<'a> Drop for Reset<'a> {
                fn drop(&mut self) {
                    INSIDE_ANY.fetch_sub(1, Ordering::SeqCst);
                    if !self.1 {
                        self.0.store(EMPTY, Ordering::SeqCst);
                    }
                }
            }
            let mut guard = Reset(&self.state, false);
            let r = f();
            match r {
                Ok(v) => {
                    unsafe { *self.value.get() = Some(v) };
                    guard.1 = true;
                    self.state.store(READY, Ordering::SeqCst);
                    drop(guard);
                    note_cell(self as *const Self as usize);
                    INITIALISED.fetch_add(1, Ordering::SeqCst);
                    Ok(unsafe { (*self.value.get()).as_ref().unwrap() })
                }
                Err(e) => {
                    drop(guard);
                    Err(e)
                }
            }
        }
    }
}

pub mod unsync {
    //! Single-threaded cells: no scheduling points; a tree that shares one across threads must wrap it
    //! unsafely, which only the Miri half can judge.
    pub use std::cell::OnceCell;
    pub struct Lazy<T, F = fn() -> T> {
        cell: std::cell::OnceCell<T>,
        init: std::cell::Cell<Option<F>>,
    }
    impl<T, F: FnOnce() -> T> Lazy<T, F> {
        pub const fn new(f: F) -> Self {
            Lazy {
                cell: std::cell::OnceCell::new(),
                init: std::cell::Cell::new(Some(f)),
            }
        }
        pub fn force(this: &Self) -> &T {
            this.cell.get_or_init(|| (this.init.take().expect("Lazy instance has previously been poisoned"))())
        }
    }
    impl<T, F: FnOnce() -> T> core::ops::Deref for Lazy<T, F> {
        type Target = T;
        fn deref(&self) -> &T {
            Self::force(self)
        }
    }
}
