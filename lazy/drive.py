#!/usr/bin/env python3
"""Driver of the lazysim engine (C09, shared-state clause).

  drive.py --tier quick|thorough [--seed N]
  drive.py --replay FILE

Fans children of /verif/target/lazy/release/lazysim (shuttle; one runner per
process) and, where the tier asks for it, Miri processes over the cores, merges their
results, minimises and replays failures, writes /verif/evidence/C09.json.
exit 0 ok / 1 VIOLATION / 2 harness error.
"""
import json, os, subprocess, sys, time, shutil, hashlib

VERIF = os.environ.get("VERIF_DIR", "/verif")
LAZY = os.path.join(VERIF, "lazy")
MIRI = os.path.join(VERIF, "miri")
BIN = os.path.join(VERIF, "target", "lazy", "release", "lazysim")
DEFAULT_SEED = 3737842551
REPO_DEFAULT = "/repo"
M64 = (1 << 64) - 1


def splitmix(s):
    s = (s + 0x9E3779B97F4A7C15) & M64
    z = s
    z = ((z ^ (z >> 30)) * 0xBF58476D1CE4E5B9) & M64
    z = ((z ^ (z >> 27)) * 0x94D049BB133111EB) & M64
    return s, z ^ (z >> 31)


def harness_error(msg):
    print("HARNESS-ERROR: " + msg, file=sys.stderr)
    sys.exit(2)


def variant_bin(variant):
    if not variant:
        return BIN
    if variant == "relcheck":
        # same sources and features, other compiler configuration: debug assertions and overflow checks on
        return os.path.join(VERIF, "target", "lazy", "relcheck", "lazysim")
    return os.path.join(VERIF, "target", "lazy-" + variant, "release", "lazysim")


def build(variant=None):
    """variant: None (default features of the arkworks build + the minimal build) or the name of one more crate
    feature to switch on (separate target directory)."""
    env = dict(os.environ, CARGO_NET_OFFLINE="true")
    r = subprocess.run([sys.executable, os.path.join(LAZY, "gen_shadow.py")], capture_output=True, text=True)
    if r.returncode != 0:
        harness_error("gen_shadow.py failed: " + r.stderr)
    log = os.path.join(VERIF, "logs", "build-lazysim%s.log" % ("-" + variant if variant else ""))
    cmd = ["cargo", "build", "--release", "--offline", "-p", "lazysim"]
    if variant == "relcheck":
        cmd = ["cargo", "build", "--profile", "relcheck", "--offline", "-p", "lazysim"]
    elif variant:
        cmd += ["--features", "decaf377/" + variant, "--target-dir", os.path.join(VERIF, "target", "lazy-" + variant)]
    with open(log, "w") as f:
        r = subprocess.run(cmd, cwd=LAZY, env=env, stdout=f, stderr=subprocess.STDOUT)
    if r.returncode != 0:
        tail = open(log).read()[-3000:]
        harness_error("building lazysim%s against /repo failed; see %s\n%s" % (" (feature %s)" % variant if variant else "", log, tail))


# Crate features the two standing builds do not switch on. The pinned sources contain no code conditional on
# them (they only forward to dependencies). If such code appears, the quick tier also builds and runs that variant.
BASE_FEATURES = {"arkworks", "r1cs", "std", "alloc", "default"}


def feature_conditional_code():
    import re
    repo = os.environ.get("REPO", REPO_DEFAULT)
    found = set()
    for root, _, files in os.walk(os.path.join(repo, "src")):
        for fn in files:
            if not fn.endswith(".rs"):
                continue
            try:
                text = open(os.path.join(root, fn), errors="replace").read()
            except OSError:
                continue
            for m in re.finditer(r'feature\s*=\s*"([A-Za-z0-9_\-]+)"', text):
                if m.group(1) not in BASE_FEATURES:
                    found.add(m.group(1))
    declared = set()
    try:
        manifest = open(os.path.join(repo, "Cargo.toml")).read()
        feats = manifest.split("[features]", 1)[1].split("\n[", 1)[0]
        declared = set(re.findall(r'(?m)^([A-Za-z0-9_\-]+)\s*=', feats))
    except Exception:
        pass
    return sorted(f for f in found if f in declared)


DSIM = os.path.join(VERIF, "target", "sim", "release", "dsim")


def run_edge(mode):
    """Edge scenarios that need the real once_cell and real OS resources (sim/dsim/src/edge.rs), each in a
    process of its own. Returns (rc, output)."""
    env = dict(os.environ, CARGO_NET_OFFLINE="true")
    log = os.path.join(VERIF, "logs", "build-dsim-for-edge.log")
    with open(log, "w") as f:
        r = subprocess.run(["cargo", "build", "--release", "--offline", "-p", "dsim"], cwd=os.path.join(VERIF, "sim"), env=env,
                           stdout=f, stderr=subprocess.STDOUT)
    if r.returncode != 0:
        harness_error("building dsim (edge scenarios) against /repo failed; see %s\n%s" % (log, open(log).read()[-2000:]))
    try:
        r = subprocess.run([DSIM, "edge", "--mode", mode], capture_output=True, text=True, timeout=300)
    except subprocess.TimeoutExpired:
        return 1, "INVARIANT no_termination: edge scenario %s did not finish within 300 s" % mode
    return r.returncode, (r.stdout + r.stderr).strip()


def invariant_of(msg):
    if msg is None:
        return None
    if "INVARIANT " in msg:
        return msg.split("INVARIANT ", 1)[1].split(":")[0].split()[0]
    if "deadlock" in msg.lower():
        return "deadlock"
    if "exceeded max_steps" in msg or "max_steps" in msg:
        return "livelock_max_steps"
    return "panic"


def run_children(jobs, workdir, par=16, timeout=None):
    """jobs: list of dicts(scheduler, seed, iters, threads, ops). Returns list of (job, result|None, rc).
    A child that exceeds `timeout` seconds is killed and reported with rc = "hung"."""
    procs = []
    results = []
    pending = list(enumerate(jobs))
    running = []
    while pending or running:
        while pending and len(running) < par:
            idx, j = pending.pop(0)
            out = os.path.join(workdir, "child%04d.json" % idx)
            sdir = os.path.join(workdir, "sched%04d" % idx)
            os.makedirs(sdir, exist_ok=True)
            cmd = []
            if j.get("cpus"):
                # restricted affinity: std::thread::available_parallelism() and thread pools see this many cores
                cmd = ["taskset", "-c", "0-%d" % (j["cpus"] - 1)]
            cmd += [variant_bin(j.get("variant")), "--scheduler", j["scheduler"], "--seed", str(j["seed"]), "--iters", str(j["iters"]),
                   "--threads", str(j["threads"]), "--ops", str(j["ops"]), "--out", out, "--schedule-dir", sdir,
                   "--stack", str(j.get("stack", 0x40000))]
            if j.get("preflight"):
                cmd.append("--preflight")
            p = subprocess.Popen(cmd, stdout=subprocess.PIPE, stderr=subprocess.PIPE, text=True)
            running.append((idx, j, p, out, sdir, time.time()))
        still = []
        for (idx, j, p, out, sdir, started) in running:
            rc = p.poll()
            if rc is None:
                # progress heartbeat: the child rewrites <out>.progress every 25 executions
                last = started
                try:
                    last = max(started, os.path.getmtime(out + ".progress"))
                except OSError:
                    pass
                if timeout and time.time() - last > timeout:
                    p.kill()
                    p.communicate()
                    results.append((idx, j, None, "hung", sdir, ""))
                    continue
                still.append((idx, j, p, out, sdir, started))
                continue
            so, se = p.communicate()
            res = None
            if os.path.exists(out):
                try:
                    res = json.load(open(out))
                except Exception:
                    res = None
            results.append((idx, j, res, rc, sdir, se[-2000:]))
        running = still
        if running:
            time.sleep(0.02)
    results.sort(key=lambda r: r[0])
    return results


def schedule_file(sdir):
    fs = sorted(os.listdir(sdir)) if os.path.isdir(sdir) else []
    return os.path.join(sdir, fs[0]) if fs else None


def minimise(job, inv, workdir):
    """Re-run the failing seed family with fewer threads / operations; keep the smallest configuration
    that still fails with the same invariant."""
    best = None
    configs = [(2, 1), (2, 2), (3, 1), (2, 3), (3, 2)]
    configs = [c for c in configs if c[0] <= job["threads"] and c[1] <= job["ops"] and c != (job["threads"], job["ops"])]
    jobs = [dict(job, threads=t, ops=o) for (t, o) in configs]
    sub = os.path.join(workdir, "minimise")
    os.makedirs(sub, exist_ok=True)
    for (idx, j, res, rc, sdir, se) in run_children(jobs, sub):
        if rc == 1 and res and invariant_of(res.get("failure")) == inv and schedule_file(sdir):
            best = (j, res, schedule_file(sdir))
            break
    return best


def replay_schedule(path, threads, ops, variant=None, cpus=None):
    cmd = ["taskset", "-c", "0-%d" % (cpus - 1)] if cpus else []
    cmd += [variant_bin(variant), "--replay-schedule", path, "--threads", str(threads), "--ops", str(ops)]
    r = subprocess.run(cmd, capture_output=True, text=True)
    return r.returncode, r.stdout.strip()


# Number of lazily initialised statics of decaf377 that the scenario's operations reach on the pinned tree
# (ONE, TWO, M, M_MINUS_ONE_DIV_TWO, ZETA_TO_ONE_MINUS_M_DIV_TWO, G, SQRT_LOOKUP_TABLES; `R` is only read by a debug assertion).
# If fewer go through the stand-in, part of the shared state has moved outside what shuttle controls.
EXPECTED_CELLS = 7

# one seed takes 4-6 minutes on this machine (more when all cores are busy); far beyond that the scenario is not terminating
MIRI_TIMEOUT = 40 * 60

# Constructs whose correctness under concurrency the shuttle half cannot judge (it only controls what goes
# through its own primitives): raw atomics, interior mutability shared by hand, mutable statics. The pinned tree
# has none of them outside the hook module. Their appearance is not a verdict; it makes the driver ask Miri too.
RAW_SYNC = r"static\s+mut\b|UnsafeCell|\bAtomic[A-Z]\w*|Ordering::(Relaxed|Acquire|Release|AcqRel|SeqCst)|thread_local!|MaybeUninit|unsafe\s+impl\s+(Sync|Send)"


def raw_sync_constructs():
    import re
    repo = os.environ.get("REPO", REPO_DEFAULT)
    hits = []
    for root, _, files in os.walk(os.path.join(repo, "src")):
        for fn in files:
            if not fn.endswith(".rs") or fn == "verif.rs":
                continue
            path = os.path.join(root, fn)
            try:
                text = open(path, errors="replace").read()
            except OSError:
                continue
            for m in re.finditer(RAW_SYNC, text):
                hits.append("%s: %s" % (os.path.relpath(path, repo), m.group(0)))
    return hits


MIRI_FLAGS = "-Zmiri-preemption-rate=0.05 -Zmiri-disable-stacked-borrows -Zmiri-disable-validation"


def run_miri(seeds, threads, ops, par, target=None):
    """One Miri process per seed (parallel processes share the target directory)."""
    env0 = dict(os.environ, CARGO_NET_OFFLINE="true")
    # build once (also proves that the scenario compiles against /repo) so that parallel runs do not race on the build
    tgt = ["--target", target] if target else []
    r = subprocess.run(["cargo", "+nightly", "miri", "setup"] + tgt, cwd=MIRI, env=env0, capture_output=True, text=True)
    if target and r.returncode != 0:
        print("note: no Miri sysroot for %s can be built offline here; that configuration is skipped" % target)
        return []
    out = []
    pending = list(seeds)
    running = []
    first = True
    while pending or running:
        while pending and len(running) < (1 if first else par):
            s = pending.pop(0)
            # odd seeds: weak-memory emulation off, so that a relaxed load observes the latest store and a
            # too-weak publication is reported deterministically; even seeds keep the emulation on
            extra = " -Zmiri-disable-weak-memory-emulation" if s % 2 == 1 else ""
            env = dict(env0, MIRIFLAGS="-Zmiri-seed=%d %s%s" % (s, MIRI_FLAGS, extra))
            t0 = time.time()
            p = subprocess.Popen(["cargo", "+nightly", "miri", "run", "--offline"] + tgt + ["--", str(s * 7919 + 1), str(threads), str(ops)],
                                 cwd=MIRI, env=env, stdout=subprocess.PIPE, stderr=subprocess.PIPE, text=True)
            running.append((s, p, t0))
            if first:
                # let the first process finish compiling before the others start
                time.sleep(25)
                first = False
        still = []
        for (s, p, t0) in running:
            rc = p.poll()
            if rc is None:
                if time.time() - t0 > MIRI_TIMEOUT:
                    p.kill()
                    p.communicate()
                    out.append(dict(seed=s, rc=124, stdout="", stderr="INVARIANT no_termination: the scenario did not finish under Miri within %d s" % MIRI_TIMEOUT, wall_s=time.time() - t0, target=target or "host"))
                    continue
                still.append((s, p, t0))
                continue
            so, se = p.communicate()
            out.append(dict(seed=s, rc=rc, stdout=so, stderr=se[-4000:], wall_s=time.time() - t0, target=target or "host"))
        running = still
        if running:
            time.sleep(0.5)
    out.sort(key=lambda r: r["seed"])
    return out


def miri_failure_class(r):
    se = r["stderr"]
    if "Data race detected" in se:
        return "miri_data_race"
    if "deadlock" in se.lower():
        return "miri_deadlock"
    if "INVARIANT " in se:
        return "miri_" + se.split("INVARIANT ", 1)[1].split()[0].strip("'\",:")
    if "Undefined Behavior" in se:
        return "miri_undefined_behavior"
    return "miri_failure"


def main():
    args = sys.argv[1:]
    tier = os.environ.get("VERIF_TIER", "quick")
    seed = int(os.environ.get("VERIF_SEED", DEFAULT_SEED))
    replay = None
    miri_seeds_override = None
    i686_override = False
    i = 0
    while i < len(args):
        if args[i] == "--tier":
            tier = args[i + 1]; i += 2
        elif args[i] == "--seed":
            seed = int(args[i + 1]); i += 2
        elif args[i] == "--replay":
            replay = args[i + 1]; i += 2
        elif args[i] == "--miri-seeds":
            miri_seeds_override = int(args[i + 1]); i += 2
        elif args[i] == "--miri-i686":
            i686_override = True; i += 1
        else:
            harness_error("unknown argument " + args[i])
    os.makedirs(os.path.join(VERIF, "logs"), exist_ok=True)
    os.makedirs(os.path.join(VERIF, "replays"), exist_ok=True)
    os.makedirs(os.path.join(VERIF, "evidence"), exist_ok=True)
    t0 = time.time()

    if replay:
        rp = json.load(open(replay))
        if rp.get("engine") == "lazysim-preflight":
            build()
            wd = os.path.join(VERIF, "logs", "lazy-replay")
            shutil.rmtree(wd, ignore_errors=True)
            os.makedirs(wd)
            r = run_children([dict(rp["job"], iters=1, preflight=True)], wd)
            if r and r[0][3] == 1 and r[0][2] and r[0][2].get("preflight_failed"):
                print("reproduced: " + (r[0][2].get("failure") or "")[:300])
                print("VIOLATION property=C09 replay=%s" % replay)
                sys.exit(1)
            print("replay of %s: the preflight passes on this tree" % replay)
            sys.exit(0)
        if rp.get("engine") == "lazysim-edge":
            rc, out = run_edge(rp["mode"])
            if rc == 1 and invariant_of(out) == rp["invariant"]:
                print("reproduced: " + out.splitlines()[-1][:300])
                print("VIOLATION property=C09 replay=%s" % replay)
                sys.exit(1)
            if rc not in (0, 1) and not (rc < 0):
                harness_error("edge scenario exited with %d: %s" % (rc, out[-500:]))
            if rc < 0:
                print("reproduced: the edge scenario was killed by signal %d" % (-rc))
                print("VIOLATION property=C09 replay=%s" % replay)
                sys.exit(1)
            print("replay of %s: the edge scenario %s passes on this tree" % (replay, rp["mode"]))
            sys.exit(0)
        if rp.get("engine") == "lazysim-job":
            build()
            if rp["job"].get("variant"):
                build(rp["job"]["variant"])
            wd = os.path.join(VERIF, "logs", "lazy-replay")
            shutil.rmtree(wd, ignore_errors=True)
            os.makedirs(wd)
            r = run_children([rp["job"]], wd)
            if r and r[0][3] == 1 and r[0][2] and invariant_of(r[0][2].get("failure")) == rp["invariant"]:
                print("reproduced: " + (r[0][2].get("failure") or "").splitlines()[0][:300])
                print("VIOLATION property=C09 replay=%s" % replay)
                sys.exit(1)
            print("replay of %s: the child's executions complete without this violation on this tree" % replay)
            sys.exit(0)
        if rp.get("engine") == "lazysim-crash":
            build()
            if rp["job"].get("variant"):
                build(rp["job"]["variant"])
            wd = os.path.join(VERIF, "logs", "lazy-replay")
            shutil.rmtree(wd, ignore_errors=True)
            os.makedirs(wd)
            r = run_children([rp["job"]], wd)
            if r and isinstance(r[0][3], int) and r[0][3] < 0:
                print("reproduced: " + rp["invariant"])
                print("VIOLATION property=C09 replay=%s" % replay)
                sys.exit(1)
            print("replay of %s: the child completes on this tree" % replay)
            sys.exit(0)
        if rp.get("engine") == "lazysim-miri":
            rs = run_miri([rp["miri_seed"]], rp["threads"], rp["ops"], 1, target=None if rp.get("target", "host") == "host" else rp["target"])
            if rs and rs[0]["rc"] != 0 and miri_failure_class(rs[0]) == rp["invariant"]:
                print("reproduced: " + rp["invariant"])
                print("VIOLATION property=C09 replay=%s" % replay)
                sys.exit(1)
            print("replay of %s: Miri completes without this diagnostic on this tree" % replay)
            sys.exit(0)
        build()
        if rp.get("variant"):
            build(rp["variant"])
        sched = os.path.join(os.path.dirname(os.path.abspath(replay)), rp["schedule_file"])
        rc, out = replay_schedule(sched, rp["threads"], rp["ops"], rp.get("variant"), rp.get("cpus"))
        print(out)
        if rc == 1:
            print("VIOLATION property=C09 replay=%s" % replay)
            sys.exit(1)
        if rc == 0:
            sys.exit(0)
        harness_error("replay child exited with %d" % rc)

    print("engine=lazysim property=C09 tier=%s VERIF_SEED=%d" % (tier, seed))
    build()
    workdir = os.path.join(VERIF, "logs", "lazy-work")
    shutil.rmtree(workdir, ignore_errors=True)
    os.makedirs(workdir)
    if tier == "quick":
        nchild, iters, miri_n = 32, 600, 0
    else:
        nchild, iters, miri_n = 256, 6000, 64
    if miri_seeds_override is not None:
        miri_n = miri_seeds_override
    s = seed ^ 0xC09
    jobs = []
    for k in range(nchild):
        s, v = splitmix(s)
        jobs.append(dict(scheduler="random" if k % 2 == 0 else "pct", seed=v & 0x7FFFFFFFFFFFFFFF, iters=iters,
                         threads=([2, 3, 4] if tier == "quick" else [2, 3, 4, 5, 6])[k % (3 if tier == "quick" else 5)],
                         ops=[1, 2, 3, 4][(k // 3) % 4],
                         # a quarter of the children run their caller threads on small stacks (first use from a
                         # thread with little stack must work: the tables live on the heap)
                         stack=0x10000 if k % 4 == 3 else 0x40000,
                         preflight=(k == 0)))
    # configuration variants: other crate features, fewer visible cores
    variants = feature_conditional_code()
    if variants:
        print("note: the crate has code conditional on feature(s) %s that neither standing build switches on; "
              "building and running those variants as well" % ", ".join(variants))
    if tier == "thorough" and "parallel" not in variants:
        variants.append("parallel")
    ncpu = os.cpu_count() or 4
    for v in variants:
        build(v)
        for k, cpus in enumerate([c for c in (3, 5, 6, 7, 1, ncpu) if c <= ncpu]):
            s, val = splitmix(s)
            jobs.append(dict(scheduler="random" if k % 2 == 0 else "pct", seed=val & 0x7FFFFFFFFFFFFFFF,
                             iters=max(100, iters // 4), threads=[2, 3, 4][k % 3], ops=[2, 3, 1][k % 3],
                             stack=0x40000, preflight=False, variant=v, cpus=cpus))
    # the checked configuration (debug assertions and overflow checks on, as `cargo test` compiles the crate)
    build("relcheck")
    for k in range(6 if tier == "quick" else 32):
        s, val = splitmix(s)
        jobs.append(dict(scheduler="random" if k % 2 == 0 else "pct", seed=val & 0x7FFFFFFFFFFFFFFF,
                         iters=max(100, iters // 2), threads=[2, 3, 4][k % 3], ops=[3, 2, 4][k % 3],
                         stack=0x40000, preflight=(k == 0), variant="relcheck"))
    # long sessions: few threads, many calls each (state that accumulates over calls: caches with eviction, counters)
    for k in range(4 if tier == "quick" else 24):
        s, val = splitmix(s)
        jobs.append(dict(scheduler="random" if k % 2 == 0 else "pct", seed=val & 0x7FFFFFFFFFFFFFFF,
                         iters=max(40, iters // 10), threads=2, ops=[40, 80, 24, 120][k % 4],
                         stack=0x40000, preflight=False, variant="relcheck" if k % 4 == 3 else None))
    # the standing build under restricted affinity too (anything sized by the number of visible cores)
    for k, cpus in enumerate([c for c in (3, 1) if c <= ncpu]):
        s, val = splitmix(s)
        jobs.append(dict(scheduler="random" if k % 2 == 0 else "pct", seed=val & 0x7FFFFFFFFFFFFFFF,
                         iters=max(100, iters // 4), threads=3, ops=2, stack=0x40000, preflight=False, cpus=cpus))
    par = os.cpu_count() or 4
    # a healthy child completes 25 executions (one heartbeat) in about 0.15 s, far less even on a heavily loaded
    # machine; one that shows no heartbeat for two minutes is not making progress
    child_timeout = 120.0
    results = run_children(jobs, workdir, par, timeout=child_timeout)
    hung = [r for r in results if r[3] == "hung"]
    if hung:
        # Some caller thread busy-waits on state the simulated scheduler does not control (e.g. a hand-rolled
        # spin lock replacing once_cell): under shuttle's cooperative scheduling nobody else can run, so the
        # shuttle half cannot decide anything for this tree. That is not a verdict. Fall back to the Miri half,
        # whose preemptive scheduler and real atomics can, even in the quick tier.
        print("note: %d of %d shuttle children made no progress within %.0f s (uncontrolled busy-waiting in the code under test); "
              "deciding this tree with the Miri half instead" % (len(hung), len(results), child_timeout))
        results = [r for r in results if r[3] != "hung"]
        if miri_n == 0:
            miri_n = 4
    raw = raw_sync_constructs()
    if raw:
        print("note: the crate now contains synchronisation constructs outside the simulated primitives (%s%s); "
              "additionally deciding this tree with the Miri half" % (", ".join(raw[:3]), " ..." if len(raw) > 3 else ""))
        if miri_n == 0:
            miri_n = 4
    cells_seen = max([r[2].get("distinct_cells", 0) for r in results if r[2]] or [0])
    if results and cells_seen < EXPECTED_CELLS:
        print("note: only %d lazily initialised cells went through the simulated once_cell (expected %d): some shared state is "
              "initialised by a mechanism shuttle does not control; additionally deciding this tree with the Miri half" % (cells_seen, EXPECTED_CELLS))
        if miri_n == 0:
            miri_n = 4
    executions = steps = ops = contended = entries = overlap = 0
    digests = set()
    cover = set()
    failure = None
    crash_violation = False
    for (idx, j, res, rc, sdir, se) in results:
        if isinstance(rc, int) and rc < 0 and crash_violation:
            continue
        if isinstance(rc, int) and rc < 0 and failure is None:
            # killed by a signal (stack overflow / abort inside the library): re-run once to make sure it is deterministic
            again = run_children([j], os.path.join(workdir, "crash-again"))
            if again and isinstance(again[0][3], int) and again[0][3] < 0:
                inv = "crash_signal_%d" % (-rc)
                name = "C09-%d-%s" % (seed, inv)
                replay_path = os.path.join(VERIF, "replays", name + ".json")
                json.dump(dict(engine="lazysim-crash", property="C09", invariant=inv, seed=seed, job=j,
                               detail="the child process running these executions was killed by signal %d (e.g. stack overflow in a caller thread with a %d-byte stack); stderr: %s" % (-rc, j.get("stack", 0), se[-600:])),
                          open(replay_path, "w"), indent=1)
                print("violation found: %s :: a caller thread crashed the process (stack %d bytes): %s" % (inv, j.get("stack", 0), se.strip().splitlines()[-1][:200] if se.strip() else ""))
                print("VIOLATION property=C09 replay=%s" % replay_path)
                crash_violation = True
                continue
            harness_error("lazysim child %d crashed once with signal %d but not on re-run" % (idx, -rc))
        if res is None or rc not in (0, 1):
            harness_error("lazysim child %d crashed (rc=%s): %s" % (idx, rc, se))
        executions += res["executions"]; steps += res["steps"]; ops += res["ops"]
        contended += res["contended_executions"]; entries += res["contended_entries"]; overlap += res["cross_cell_overlap"]
        digests.update(res["interleaving_digests"])
        cover.update(res["digit_cover"])
        if rc == 1 and failure is None:
            failure = (j, res, sdir)
    violations = 1 if crash_violation else 0
    exit_code = 1 if crash_violation else 0
    replay_path = None
    if failure:
        j, res, sdir = failure
        inv = invariant_of(res["failure"])
        print("violation found: %s :: %s" % (inv, (res["failure"] or "").splitlines()[0][:300]))
        if res.get("preflight_failed"):
            # pure clause sampled before any schedule: the replay is the preflight itself
            name = "C09-%d-%s" % (seed, inv)
            replay_path = os.path.join(VERIF, "replays", name + ".json")
            json.dump(dict(engine="lazysim-preflight", property="C09", invariant=inv, detail=res["failure"], seed=seed, job=j),
                      open(replay_path, "w"), indent=1)
            print("VIOLATION property=C09 replay=%s" % replay_path)
            sys.exit(1)
        sched = schedule_file(sdir)
        best = minimise(j, inv, workdir)
        if best:
            j, res, sched = best
            print("minimised to %d threads x %d operations" % (j["threads"], j["ops"]))
        if not sched:
            harness_error("shuttle did not persist the failing schedule")
        name = "C09-%d-%s" % (seed, inv)
        dst = os.path.join(VERIF, "replays", name + ".schedule")
        shutil.copy(sched, dst)
        replay_path = os.path.join(VERIF, "replays", name + ".json")
        json.dump(dict(engine="lazysim", property="C09", invariant=inv, detail=res["failure"], seed=seed,
                       scheduler=j["scheduler"], child_seed=j["seed"], threads=j["threads"], ops=j["ops"],
                       variant=j.get("variant"), cpus=j.get("cpus"),
                       schedule_file=os.path.basename(dst)), open(replay_path, "w"), indent=1)
        rc, out = replay_schedule(dst, j["threads"], j["ops"], j.get("variant"), j.get("cpus"))
        if rc != 1:
            # The failing execution alone does not fail in a fresh process: the code under test carries state
            # from one execution to the next (shuttle runs all tasks of all executions of a child on one OS
            # thread, so a thread-local cache survives). The child as a whole is still a pure function of its
            # arguments: re-run it, and if it fails the same way the replay is the job itself.
            j0 = failure[0]
            again = run_children([j0], os.path.join(workdir, "job-again"))
            a = again[0] if again else None
            if a and a[3] == 1 and a[2] and invariant_of(a[2].get("failure")) == inv:
                json.dump(dict(engine="lazysim-job", property="C09", invariant=inv, detail=a[2]["failure"], seed=seed, job=j0,
                               note="history-dependent: reproduced by re-running the whole child (all its executions in order), not by the failing execution alone"),
                          open(replay_path, "w"), indent=1)
                print("note: the failing execution alone does not reproduce in a fresh process; the replay re-runs the child's executions in order")
                print("VIOLATION property=C09 replay=%s" % replay_path)
                sys.exit(1)
            harness_error("replay of %s did not reproduce in a fresh process (rc=%d): %s" % (dst, rc, out))
        print(out)
        print("VIOLATION property=C09 replay=%s" % replay_path)
        violations = 1
        exit_code = 1

    edge_results = []
    if exit_code == 0:
        for mode in ("teardown", "starved"):
            rc, out = run_edge(mode)
            edge_results.append(dict(mode=mode, rc=rc))
            if rc == 0:
                continue
            if rc == 2:
                harness_error("edge scenario %s: %s" % (mode, out[-800:]))
            inv = invariant_of(out) if rc == 1 else "crash_signal_%d" % (-rc)
            name = "C09-%d-edge_%s_%s" % (seed, mode, inv)
            replay_path = os.path.join(VERIF, "replays", name + ".json")
            json.dump(dict(engine="lazysim-edge", property="C09", invariant=inv, mode=mode, seed=seed, detail=out[-1500:]),
                      open(replay_path, "w"), indent=1)
            line = next((l for l in out.splitlines() if "INVARIANT " in l), (out.splitlines() or [""])[-1])
            print("violation found in edge scenario %s: %s :: %s" % (mode, inv, line[:300]))
            print("VIOLATION property=C09 replay=%s" % replay_path)
            violations = 1
            exit_code = 1
            break

    miri_runs = []
    if (miri_n > 0 or i686_override) and exit_code == 0:
        miri_runs = run_miri(list(range(1, miri_n + 1)), 3, 1, par)
        if tier == "thorough" or i686_override:
            # one more configuration: a target whose usize is 32 bits wide (table construction and indexing
            # arithmetic must not depend on the width of usize); interpreted, so no cross toolchain is needed
            miri_runs += run_miri([1001, 1002], 3, 1, par, target="i686-unknown-linux-gnu")
            # and a big-endian target (byte-order assumptions in limb <-> byte conversions)
            miri_runs += run_miri([2001], 3, 1, par, target="s390x-unknown-linux-gnu")
        for r in miri_runs:
            if r["rc"] != 0:
                cls = miri_failure_class(r)
                if "error: could not compile" in r["stderr"] or "failed to run custom build" in r["stderr"]:
                    harness_error("Miri build failed: " + r["stderr"][-1500:])
                name = "C09-%d-%s" % (seed, cls)
                replay_path = os.path.join(VERIF, "replays", name + ".json")
                json.dump(dict(engine="lazysim-miri", property="C09", invariant=cls, miri_seed=r["seed"], threads=3, ops=1,
                               target=r.get("target", "host"),
                               flags=MIRI_FLAGS, detail=r["stderr"][-3000:]), open(replay_path, "w"), indent=1)
                print("violation found under Miri seed %d: %s" % (r["seed"], cls))
                print(r["stderr"][-1500:])
                print("VIOLATION property=C09 replay=%s" % replay_path)
                violations = 1
                exit_code = 1
                break

    wall = time.time() - t0
    missing = []
    if exit_code == 0 and not hung:
        if contended == 0:
            missing.append("contended_first_use")
        if overlap == 0:
            missing.append("cross_cell_overlap")
        if len(cover) < 1000:
            missing.append("table_digit_coverage")
    ev = {
        "property_id": "C09", "tier": tier, "seed": seed, "level": "exploration",
        "coverage": {
            "evaluations": executions + len(miri_runs),
            "distinct_nontrivial": len(digests),
            "rule": "shuttle executions of 2-4 caller threads x 1-4 operations (sqrt_ratio_zeta on structured 2-primary inputs, decode, encode, Elligator) "
                    "all racing on first use of decaf377's eight lazily initialised statics, which are fresh in every execution; schedulers RandomScheduler and PctScheduler(depth 3) "
                    "seeded from VERIF_SEED; workload drawn from shuttle's data source so it is part of the recorded schedule. distinct_nontrivial = distinct FNV-1a digests of the "
                    "sequence of scheduling decisions (task chosen, number of runnable tasks) per execution; an execution is contended when a thread entered a cell while another was inside it. "
                    "Thorough tier additionally interprets the scenario with std threads and the real once_cell under Miri (one process per -Zmiri-seed, data-race detector on).",
            "samples": [dict(j, failure=None) for j in jobs[:3]],
            "exhaustive": False,
            "sim_steps": steps,
            "runs_per_hour": round(executions / wall * 3600) if wall > 0 else 0,
            "fault_counts": {"contended_first_use_executions": contended, "contended_cell_entries": entries, "cross_cell_overlapping_initialisations": overlap},
            "probes": {"table_digit_values_covered_of_1408": len(cover), "operations_checked": ops,
                       "miri_seeds_clean": sum(1 for r in miri_runs if r["rc"] == 0)},
            "fault_free_runs": executions - contended,
            "components": {"real": ["decaf377 (arkworks build, /repo working tree via shadow manifest), arkworks, hashbrown",
                                    "under Miri: everything including once_cell"],
                           "stub": ["once_cell::sync::Lazy -> shuttle::lazy_static::Lazy (shuttle Once + per-execution storage) in the shuttle half"]},
            "miri": [dict(seed=r["seed"], rc=r["rc"], wall_s=round(r["wall_s"], 1), target=r.get("target", "host")) for r in miri_runs],
            "missing_probes": missing,
            "shuttle_children_without_progress": len(hung),
            "lazy_cells_seen_by_stand_in": cells_seen,
            "raw_synchronisation_constructs_in_crate": raw[:10],
            "edge_scenarios": edge_results,
            "configuration_variants": {"extra_feature_builds": variants,
                                       "children_of_checked_build": sum(1 for j in jobs if j.get("variant") == "relcheck"),
                                       "children_under_restricted_affinity": sum(1 for j in jobs if j.get("cpus")),
                                       "visible_core_counts": sorted(set(j["cpus"] for j in jobs if j.get("cpus")))},
            "simulated_time_note": "no clock in the crate; simulated time is the number of scheduling decisions (sim_steps)",
            "known_findings_seen": [],
        },
        "assumptions": ["shuttle's Once models once_cell's blocking initialisation; races inside once_cell itself are visible only to the Miri half",
                        "reference model (BigUint) for the four-case contract and for decode/encode"],
        "wall_s": wall, "violations": violations,
    }
    json.dump(ev, open(os.path.join(VERIF, "evidence", "C09.json"), "w"), indent=1)
    print("executions=%d contended=%d distinct_interleavings=%d steps=%d miri_seeds=%d wall=%.1fs" % (
        executions, contended, len(digests), steps, len(miri_runs), wall))
    if missing and exit_code == 0:
        harness_error("reach probes stuck at zero: %s" % missing)
    shutil.rmtree(workdir, ignore_errors=True)
    sys.exit(exit_code)


if __name__ == "__main__":
    main()
