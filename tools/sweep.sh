#!/bin/bash
# False-alarm sweep: every quick check under many VERIF_SEED values on the current tree.
# usage: tools/sweep.sh <first seed> <last seed> [ids...]
cd "$(dirname "$0")/.."
A=${1:-1}; B=${2:-10}; shift 2 || true
IDS=${@:-C02 C03 C06 C09 C11 C13 C14}
./setup.sh >/dev/null 2>&1
bad=0
for s in $(seq $A $B); do
  for id in $IDS; do
    out=$(VERIF_SEED=$s ./check $id --tier quick 2>&1); rc=$?
    if [ $rc -ne 0 ] || echo "$out" | grep -q "^VIOLATION"; then
      bad=$((bad+1)); echo "ALARM seed=$s id=$id rc=$rc"; echo "$out" | grep -v KNOWN-FINDING | tail -6 | cut -c1-600
    fi
  done
  echo "seed $s done (alarms so far: $bad)"
done
echo "sweep finished: $bad alarms"
