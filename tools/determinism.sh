#!/bin/bash
# Determinism proof: for each engine, N seeds x 2 runs each in separate processes, at 1 and 16 workers;
# the event-log digests (FNV over every run's abstract trace digest and step count, in run order) must agree.
# usage: tools/determinism.sh <first seed> <last seed> [runs per batch]
cd "$(dirname "$0")/.."
A=${1:-1}; B=${2:-8}; RUNS=${3:-1500}
D=logs/determinism; rm -rf $D; mkdir -p $D
bad=0; n=0
for s in $(seq $A $B); do
  for spec in "io C02" "io C03" "io C06" "io C11" "r1cs C13" "r1cs C14"; do
    set -- $spec
    for w in 1 16 7; do
      VERIF_WORKERS=$w ./target/sim/release/dsim $1 --prop $2 --seed $s --runs $RUNS --evidence-dir $D/ev --replay-dir $D/rp --dump-digest $D/$2.$s.$w.a >/dev/null 2>&1
    done
    VERIF_WORKERS=16 ./target/sim/release/dsim $1 --prop $2 --seed $s --runs $RUNS --evidence-dir $D/ev --replay-dir $D/rp --dump-digest $D/$2.$s.16.b >/dev/null 2>&1
    n=$((n+1))
    if ! cmp -s $D/$2.$s.1.a $D/$2.$s.16.a || ! cmp -s $D/$2.$s.16.a $D/$2.$s.16.b || ! cmp -s $D/$2.$s.7.a $D/$2.$s.16.a; then
      bad=$((bad+1)); echo "NONDETERMINISM $2 seed=$s: $(cat $D/$2.$s.1.a) $(cat $D/$2.$s.7.a) $(cat $D/$2.$s.16.a) $(cat $D/$2.$s.16.b)"
    fi
  done
done
# shuttle children: same (scheduler, seed) twice -> identical set of interleaving digests and counters
for s in $(seq $A $B); do
  for sch in random pct; do
    ./target/lazy/release/lazysim --scheduler $sch --seed $s --iters 150 --threads 3 --ops 3 --out $D/lazy.$sch.$s.a >/dev/null 2>&1
    ./target/lazy/release/lazysim --scheduler $sch --seed $s --iters 150 --threads 3 --ops 3 --out $D/lazy.$sch.$s.b >/dev/null 2>&1
    n=$((n+1))
    if ! python3 - "$D/lazy.$sch.$s.a" "$D/lazy.$sch.$s.b" <<'PY'
import json,sys
a=json.load(open(sys.argv[1])); b=json.load(open(sys.argv[2]))
for d in (a,b): d.pop('wall_s')
sys.exit(0 if a==b else 1)
PY
    then bad=$((bad+1)); echo "NONDETERMINISM lazysim $sch seed=$s"; fi
  done
done
echo "determinism: $n comparisons, $bad mismatches"
[ $bad -eq 0 ]
