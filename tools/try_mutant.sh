#!/bin/bash
# Applies a patch to /repo, runs the given quick checks, reverts /repo (always).
# usage: tools/try_mutant.sh <patch.diff> <id> [id...]    (env TIER=quick|thorough, VERIF_SEED)
P=$(readlink -f "$1"); shift
cd "$(dirname "$0")/.."
if ! git -C /repo diff --quiet; then echo "refusing: /repo has uncommitted changes"; exit 2; fi
trap 'git -C /repo checkout -- . ; git -C /repo status --short | grep -v "^??" ' EXIT
git -C /repo apply "$P" || { echo "patch does not apply"; exit 2; }
for id in "$@"; do
  t0=$(date +%s)
  out=$(./check $id --tier ${TIER:-quick} 2>&1); rc=$?
  t1=$(date +%s)
  echo "== $id rc=$rc ($((t1-t0))s)"
  echo "$out" | grep -E "^(violation found|VIOLATION|minimised|HARNESS)" | cut -c1-420
done
