#!/bin/bash
# "Alternate universe" for testing seeded changes without touching /repo (which a background sweep may be using):
# a copy of /verif under /tmp/verif-alt whose manifests point at the scratch worktree /tmp/alt instead of /repo.
#   tools/alt.sh sync                      refresh the copy from /verif (build output is kept)
#   tools/alt.sh try <patch.diff> <id>...  apply the patch to /tmp/alt, run the quick checks there, revert
set -u
SRC=/verif; DST=/tmp/verif-alt; REPO_ALT=/tmp/alt
case "${1:-}" in
  sync)
    [ -d $REPO_ALT ] || { git -C /repo worktree add -q --detach $REPO_ALT HEAD && cp /repo/Cargo.lock $REPO_ALT/; }
    mkdir -p $DST
    rsync -a --delete --exclude target --exclude logs --exclude .git --exclude evidence --exclude replays $SRC/ $DST/
    mkdir -p $DST/evidence $DST/replays $DST/logs
    cp $SRC/known_findings.txt $DST/
    sed -i "s#path = \"/repo\"#path = \"$REPO_ALT\"#" $DST/sim/dsim/Cargo.toml $DST/miri/Cargo.toml
    sed -i "s#os.environ.get(\"REPO\", \"/repo\")#os.environ.get(\"REPO\", \"$REPO_ALT\")#" $DST/lazy/gen_shadow.py
    sed -i "s#REPO_DEFAULT = \"/repo\"#REPO_DEFAULT = \"$REPO_ALT\"#" $DST/lazy/drive.py
    sed -i "s#REPO_DEFAULT = \"/repo\"#REPO_DEFAULT = \"$REPO_ALT\"#" $DST/tools/cross_target.py
    echo "synced"
    ;;
  try)
    shift; P=$(readlink -f "$1"); shift
    git -C $REPO_ALT checkout -q -- . ; git -C $REPO_ALT apply "$P" || { echo "patch does not apply"; exit 2; }
    for id in "$@"; do
      t0=$(date +%s); out=$(cd $DST && ./check $id --tier ${TIER:-quick} 2>&1); rc=$?; t1=$(date +%s)
      echo "== $id rc=$rc ($((t1-t0))s)"
      echo "$out" | grep -E "^(violation found|VIOLATION|minimised|HARNESS|note)" | cut -c1-420
    done
    git -C $REPO_ALT checkout -q -- .
    ;;
  *) echo "usage: tools/alt.sh sync | try <patch> <id>..."; exit 2;;
esac
