#!/bin/bash
# Thorough tier of every check on the current tree with wall-clock caps on the seeded parts of the three largest
# iosim checks (so that the whole pass fits a fixed time budget). The registered thorough commands have no caps.
cd "$(dirname "$0")/.."
./setup.sh >/dev/null 2>&1
CAP=${1:-1200}
run() { id=$1; shift; t0=$(date +%s); out=$(./check $id --tier thorough "$@" 2>&1); rc=$?; t1=$(date +%s)
  echo "== $id thorough $* rc=$rc wall=$((t1-t0))s"; echo "$out" | grep -v KNOWN-FINDING | grep -E "^runs=|^executions=|^cross-target|^concurrency|VIOLATION|HARNESS|violation" | cut -c1-400; }
run C13
run C14
run C11 --max-seconds $CAP
run C02 --max-seconds $CAP
run C03 --max-seconds $CAP
run C06
run C09
