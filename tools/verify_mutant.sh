#!/bin/bash
# Independent confirmation of a sub-agent's mutant inside its scratch worktree:
#  patch applies; crate builds (default + r1cs); 101 tests pass; demo fails with the patch; demo passes without.
# usage: tools/verify_mutant.sh <worktree> <k>
WT=$1; K=$2; M=$WT/mutants/$K
cd $WT || exit 2
export CARGO_NET_OFFLINE=true
git checkout -q -- . ; rm -f tests/demo*.rs
DEMO=$(ls $M/*.rs | head -1); NAME=$(basename $DEMO .rs)
FEAT=""; grep -q "r1cs" $DEMO && FEAT="--features r1cs"
FLAGS=""; grep -q "decaf377_verif\|decaf377::verif" $DEMO && FLAGS="--cfg decaf377_verif"
run_demo() { cp $DEMO tests/$NAME.rs; RUSTFLAGS="$FLAGS" timeout 1500 cargo test --offline $FEAT --test $NAME >/tmp/vm-$$.log 2>&1; rc=$?; rm -f tests/$NAME.rs; return $rc; }
git apply $M/patch.diff || { echo "RESULT $WT/$K patch_does_not_apply"; exit 1; }
b1=0; cargo build --offline >/dev/null 2>&1 || b1=1
b2=0; cargo build --offline --features r1cs >/dev/null 2>&1 || b2=1
tests=$(cargo test --workspace --offline 2>&1 | grep "^test result" | awk '{p+=$4; f+=$6} END {print p"/"f}')
run_demo; with=$?
git checkout -q -- .
run_demo; without=$?
echo "RESULT $WT/$K build=$b1 build_r1cs=$b2 tests(pass/fail)=$tests demo_with_patch_rc=$with demo_without_patch_rc=$without  (want 0 0 101/0 nonzero 0)"
