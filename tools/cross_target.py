#!/usr/bin/env python3
"""Cross-target configurations of the iosim properties (thorough tier of C02, C03, C11).

The iosim engine runs on the 64-bit little-endian host. Byte order and pointer width are configuration
axes on which limb/byte conversions and table indexing can depend; this pass interprets a small,
single-threaded conversions program (miri/src/main.rs, mode `conv`) with Miri for a big-endian target
(s390x) and a 32-bit target (i686). Expectations are plain integers or reference vectors computed by the
BigUint model (`dsim vectors`) and passed in through argv.

  cross_target.py --prop C11 [--seed N]     run; exit 0 / 1 (VIOLATION line) / 2 (harness error)
  cross_target.py --replay FILE             re-run one recorded configuration
"""
import json, os, subprocess, sys, time

VERIF = os.environ.get("VERIF_DIR", "/verif")
MIRI = os.path.join(VERIF, "miri")
DSIM = os.path.join(VERIF, "target", "sim", "release", "dsim")
TARGETS = ["s390x-unknown-linux-gnu", "i686-unknown-linux-gnu"]
FLAGS = "-Zmiri-disable-stacked-borrows -Zmiri-disable-validation"
TIMEOUT = 40 * 60
DEFAULT_SEED = 3737842551
REPO_DEFAULT = "/repo"


def harness_error(msg):
    print("HARNESS-ERROR: " + msg, file=sys.stderr)
    sys.exit(2)


def vectors():
    r = subprocess.run([DSIM, "vectors"], capture_output=True, text=True)
    if r.returncode != 0:
        harness_error("dsim vectors failed: " + r.stderr[-500:])
    return r.stdout.split()


def launch(prop, seed, target, vecs):
    env = dict(os.environ, CARGO_NET_OFFLINE="true", MIRIFLAGS=FLAGS)
    cmd = ["cargo", "+nightly", "miri", "run", "--offline", "--target", target, "--", "conv", prop, str(seed)] + vecs
    return subprocess.Popen(cmd, cwd=MIRI, env=env, stdout=subprocess.PIPE, stderr=subprocess.PIPE, text=True)


CONC_FLAGS = "-Zmiri-preemption-rate=0.2 -Zmiri-disable-stacked-borrows -Zmiri-disable-validation"
# Shared mutable state written by hand (anything but the once_cell cells, which the C09 engines cover). The pinned
# tree has none outside the hook module; if some appears, the quick tier of C06 runs the concurrency pass too.
SHARED_STATE = r"\bMutex\b|\bRwLock\b|static\s+mut\b|UnsafeCell|\bAtomic[A-Z]\w*|thread_local!|Ordering::(Relaxed|Acquire|Release|AcqRel|SeqCst)"


def shared_state_constructs():
    import re
    repo = os.environ.get("REPO", REPO_DEFAULT)
    hits = []
    for root, _, files in os.walk(os.path.join(repo, "src")):
        for fn in files:
            if not fn.endswith(".rs") or fn == "verif.rs":
                continue
            path = os.path.join(root, fn)
            try:
                text = open(path, errors="replace").read()
            except OSError:
                continue
            for m in re.finditer(SHARED_STATE, text):
                hits.append("%s: %s" % (os.path.relpath(path, repo), m.group(0)))
    return hits


def run_conc(seeds, workload_seed):
    """Concurrency pass of C06: caller threads inside batch conversions / sums / multiscalar multiplication at
    the same time, one Miri process per scheduler seed (the Miri seed decides the interleaving: one seed is one
    repeatable execution)."""
    env0 = dict(os.environ, CARGO_NET_OFFLINE="true")
    subprocess.run(["cargo", "+nightly", "miri", "setup"], cwd=MIRI, env=env0, capture_output=True, text=True)
    procs = []
    for i, s in enumerate(seeds):
        env = dict(env0, MIRIFLAGS="-Zmiri-seed=%d %s" % (s, CONC_FLAGS))
        procs.append((s, time.time(), subprocess.Popen(
            ["cargo", "+nightly", "miri", "run", "--offline", "--", "conc", str(workload_seed + s), "3"],
            cwd=MIRI, env=env, stdout=subprocess.PIPE, stderr=subprocess.PIPE, text=True)))
        if i == 0:
            time.sleep(20)  # let the first one finish compiling
    out = []
    for (s, t0, p) in procs:
        try:
            so, se = p.communicate(timeout=TIMEOUT)
            rc = p.returncode
        except subprocess.TimeoutExpired:
            p.kill()
            so, se = p.communicate()
            rc, se = 124, se + "\nINVARIANT no_termination"
        out.append(dict(miri_seed=s, rc=rc, wall_s=round(time.time() - t0, 1), stderr=se[-3000:]))
    return out


def classify(stderr):
    if "INVARIANT " in stderr:
        return stderr.split("INVARIANT ", 1)[1].split()[0].strip("'\",:")
    if "Data race detected" in stderr:
        return "data_race"
    if "Undefined Behavior" in stderr:
        return "undefined_behavior"
    return "failure"


def run(prop, seed, targets):
    vecs = vectors()
    env0 = dict(os.environ, CARGO_NET_OFFLINE="true")
    for t in targets:
        r = subprocess.run(["cargo", "+nightly", "miri", "setup", "--target", t], cwd=MIRI, env=env0, capture_output=True, text=True)
        if r.returncode != 0:
            harness_error("cargo miri setup for %s failed: %s" % (t, r.stderr[-800:]))
    procs = [(t, time.time(), launch(prop, seed, t, vecs)) for t in targets]
    out = []
    for (t, t0, p) in procs:
        try:
            so, se = p.communicate(timeout=TIMEOUT)
            rc = p.returncode
        except subprocess.TimeoutExpired:
            p.kill()
            so, se = p.communicate()
            rc, se = 124, se + "\nINVARIANT no_termination (interpreted run exceeded %d s)" % TIMEOUT
        out.append(dict(target=t, rc=rc, wall_s=round(time.time() - t0, 1), stdout=so[-400:], stderr=se[-3000:]))
    return out


def main():
    args = sys.argv[1:]
    prop, seed, replay = None, int(os.environ.get("VERIF_SEED", DEFAULT_SEED)), None
    conc_seeds = None
    only_if_shared_state = False
    i = 0
    while i < len(args):
        if args[i] == "--prop":
            prop = args[i + 1]; i += 2
        elif args[i] == "--seed":
            seed = int(args[i + 1]); i += 2
        elif args[i] == "--replay":
            replay = args[i + 1]; i += 2
        elif args[i] == "--conc":
            conc_seeds = int(args[i + 1]); i += 2
        elif args[i] == "--only-if-shared-state":
            only_if_shared_state = True; i += 1
        else:
            harness_error("unknown argument " + args[i])
    if replay and json.load(open(replay)).get("mode") == "conc":
        rp = json.load(open(replay))
        res = run_conc([rp["miri_seed"]], rp["seed"])
        r = res[0]
        if r["rc"] != 0 and "could not compile" in r["stderr"]:
            harness_error("Miri build failed: " + r["stderr"][-1500:])
        if r["rc"] != 0 and classify(r["stderr"]) == rp["invariant"]:
            print("reproduced: %s under Miri seed %d" % (rp["invariant"], rp["miri_seed"]))
            print("VIOLATION property=%s replay=%s" % (rp["property"], replay))
            sys.exit(1)
        print("replay of %s: the concurrency pass completes under Miri seed %d on this tree" % (replay, rp["miri_seed"]))
        sys.exit(0)
    if conc_seeds is not None:
        if prop != "C06":
            harness_error("the concurrency pass belongs to C06")
        hits = shared_state_constructs()
        if only_if_shared_state and not hits:
            sys.exit(0)
        if hits:
            print("note: the crate contains hand-written shared state (%s%s); running the concurrency pass under Miri" % (", ".join(hits[:3]), " ..." if len(hits) > 3 else ""))
        res = run_conc(list(range(1, conc_seeds + 1)), seed % 1000003)
        exit_code = 0
        for r in res:
            if r["rc"] != 0:
                if "could not compile" in r["stderr"]:
                    harness_error("Miri build failed: " + r["stderr"][-1500:])
                inv = classify(r["stderr"])
                path = os.path.join(VERIF, "replays", "C06-%d-concurrency_%s.json" % (seed, inv))
                json.dump(dict(engine="miri-conv", mode="conc", property="C06", invariant=inv, seed=seed % 1000003, miri_seed=r["miri_seed"],
                               flags=CONC_FLAGS, detail=r["stderr"][-2500:]), open(path, "w"), indent=1)
                print("violation found in the concurrency pass under Miri seed %d: %s" % (r["miri_seed"], inv))
                print("VIOLATION property=C06 replay=%s" % path)
                exit_code = 1
                break
        evp = os.path.join(VERIF, "evidence", "C06.json")
        if os.path.exists(evp):
            ev = json.load(open(evp))
            ev["coverage"]["concurrency_pass"] = dict(
                program="miri/src/main.rs conc (3 caller threads inside batch conversions, sums, multiscalar multiplication)",
                miri_seeds=[dict(seed=r["miri_seed"], rc=r["rc"], wall_s=r["wall_s"]) for r in res],
                shared_state_constructs_in_crate=hits[:10])
            if exit_code == 1:
                ev["violations"] = max(1, ev.get("violations", 0))
            json.dump(ev, open(evp, "w"), indent=1)
        print("concurrency pass (C06): %d Miri seeds, %d clean" % (len(res), sum(1 for r in res if r["rc"] == 0)))
        sys.exit(exit_code)
    if replay:
        rp = json.load(open(replay))
        res = run(rp["property"], rp["seed"], [rp["target"]])
        r = res[0]
        if r["rc"] != 0 and classify(r["stderr"]) == rp["invariant"]:
            print("reproduced: %s on %s" % (rp["invariant"], rp["target"]))
            print("VIOLATION property=%s replay=%s" % (rp["property"], replay))
            sys.exit(1)
        if r["rc"] != 0 and ("could not compile" in r["stderr"]):
            harness_error("Miri build failed: " + r["stderr"][-1500:])
        print("replay of %s: the conversions pass completes on %s on this tree" % (replay, rp["target"]))
        sys.exit(0)
    if prop not in ("C02", "C03", "C11"):
        harness_error("cross_target.py handles C02, C03, C11")
    res = run(prop, seed, TARGETS)
    exit_code = 0
    for r in res:
        if r["rc"] != 0:
            if "could not compile" in r["stderr"] or "failed to run custom build" in r["stderr"]:
                harness_error("Miri build failed: " + r["stderr"][-1500:])
            inv = classify(r["stderr"])
            name = "%s-%d-cross_target_%s_%s" % (prop, seed, r["target"].split("-")[0], inv)
            path = os.path.join(VERIF, "replays", name + ".json")
            json.dump(dict(engine="miri-conv", property=prop, invariant=inv, seed=seed, target=r["target"], flags=FLAGS,
                           detail=r["stderr"][-2500:]), open(path, "w"), indent=1)
            print("violation found on target %s: %s" % (r["target"], inv))
            print(r["stderr"].strip().splitlines()[-12:] and "\n".join(r["stderr"].strip().splitlines()[-12:]))
            print("VIOLATION property=%s replay=%s" % (prop, path))
            exit_code = 1
            break
    # add what was covered to the evidence file the engine has just written
    evp = os.path.join(VERIF, "evidence", prop + ".json")
    if not os.path.exists(evp):
        # stand-alone use (no engine run before): nothing to amend
        print("cross-target conversions pass (%s): %s" % (prop, ", ".join("%s rc=%d %.0fs" % (r["target"], r["rc"], r["wall_s"]) for r in res)))
        sys.exit(exit_code)
    try:
        ev = json.load(open(evp))
        ev["coverage"]["cross_target_configurations"] = [
            dict(target=r["target"], rc=r["rc"], wall_s=r["wall_s"], program="miri/src/main.rs conv " + prop) for r in res]
        ev["coverage"].setdefault("components", {})
        if exit_code == 1:
            ev["violations"] = max(1, ev.get("violations", 0))
        json.dump(ev, open(evp, "w"), indent=1)
    except Exception as e:
        harness_error("cannot amend evidence file: %s" % e)
    print("cross-target conversions pass (%s): %s" % (prop, ", ".join("%s rc=%d %.0fs" % (r["target"], r["rc"], r["wall_s"]) for r in res)))
    sys.exit(exit_code)


if __name__ == "__main__":
    main()
