#!/bin/bash
# Runs the thorough tier of the given checks (default: all) on the current tree and summarises.
cd "$(dirname "$0")/.."
./setup.sh >/dev/null 2>&1
IDS=${@:-C02 C03 C06 C11 C13 C14 C09}
for id in $IDS; do
  t0=$(date +%s); out=$(./check $id --tier thorough 2>&1); rc=$?; t1=$(date +%s)
  echo "== $id thorough rc=$rc wall=$((t1-t0))s"
  echo "$out" | grep -v KNOWN-FINDING | tail -4 | cut -c1-400
done
