#!/bin/bash
# Build the framework from files on disk only (offline). Every check rebuilds
# what depends on /repo again; this just warms the dependency builds.
set -e
cd "$(dirname "$0")"
export CARGO_NET_OFFLINE=true
mkdir -p logs evidence replays
python3 lazy/gen_shadow.py >/dev/null
(cd sim && cargo build --release --offline 2>&1 | tail -2)
(cd sim && cargo build --profile relcheck --offline -p dsim 2>&1 | tail -2)
(cd lazy && cargo build --release --offline -p lazysim 2>&1 | tail -2)
(cd lazy && cargo build --profile relcheck --offline -p lazysim 2>&1 | tail -2)
echo "setup ok"
