#!/bin/bash
# Build the framework from files on disk only (offline).
set -e
cd "$(dirname "$0")"
export CARGO_NET_OFFLINE=true
(cd sim && cargo build --release --offline 2>&1 | tail -3)
echo "setup ok"
